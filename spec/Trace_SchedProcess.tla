---------------------------- MODULE Trace_SchedProcess ----------------------------
(* Trace validation for C22: one case = one Scheduler.process(probe) on the real scheduler built  *)
(* from abstract project P / configuration C.                                                    *)
(*   c.graph   the scheduler graph of that run: items [name, kind, ignored, file], edges          *)
(*   c.man     manifest of the probe transformation: filter (sequence of kinds), reverse,         *)
(*             filegraph, procign (process_ignored_items), plan (ProcessingStrategy.PLAN)          *)
(*   c.visits  recorded calls  [meth, plan, unit, item, role, mode, targets]  in call order;       *)
(*             unit = item name, or the file id in file-graph mode                                *)
(*   c.raised  exception text if process() failed ("" otherwise)                                  *)
(*   c.payload FALSE for the hand-written order expectations of the repository tests, which do    *)
(*             not state role / mode / targets: only selection and order are checked then         *)
(* The sequence must be a behaviour of SchedProcess (any topological order of the selected units  *)
(* is accepted) that ends in Done; role / mode / targets must equal the specification's.          *)
EXTENDS SchedProject, Json, IOUtils
VARIABLES G, M, vseq
SP == INSTANCE SchedProcess

Cases == JsonDeserialize(IOEnv.CASES)
JsonChars(P, n) == P.chars[n]
VARIABLE tid

SeqRange(s) == {s[i] : i \in DOMAIN s}

GraphOf(c) == [nodes |-> SeqRange(c.graph.items),
               edges |-> {<<c.graph.edges[i][1], c.graph.edges[i][2]>> : i \in DOMAIN c.graph.edges}]
ManOf(c) == [filter |-> SeqRange(c.man.filter), reverse |-> c.man.reverse, filegraph |-> c.man.filegraph,
             procign |-> c.man.procign]

\* first visit that is not enabled in SchedProcess, with the reason
RECURSIVE Walk(_, _, _, _, _)
Walk(g, m, vs, i, seen) ==
  IF i > Len(vs) THEN (IF seen = SP!Units(g, m) THEN <<"ok", 0>> ELSE <<"visit-missing", i>>)
  ELSE LET u == vs[i].unit
       IN IF u \notin SP!Units(g, m) THEN <<"visit-unselected", i>>
          ELSE IF u \in seen THEN <<"visit-twice", i>>
          ELSE IF ~SP!CanVisit(g, m, seen, u) THEN <<"order", i>>
          ELSE Walk(g, m, vs, i + 1, seen \cup {u})

ItemByName(P, s) == CHOOSE it \in AllItems(P) : Full(it) = s
KindByName(g, s) == (CHOOSE n \in g.nodes : n.name = s).kind

\* Diagnosis of a `targets` mismatch (part of the clause name, so that distinct causes get distinct keys):
\*   direction   extra (reported although its dependency is disabled/blocked) | missing
\*   what        <sibling|only|unq|free>@<mod|free> (how the called name resolves, where the caller lives),
\*               module (a USEd module name), symbol (a name of an ONLY list)
\*   :global     the name is excluded by the global disable list alone (not by the item's own lists)
\* (kept short: TLC wraps printed tuples longer than 80 columns, which the verdict parser does not read)
HowResolved(P, pr, x) ==
  IF IsSibling(P, pr, x) THEN "sibling" ELSE IF QualMods(P, pr, x) # {} THEN "only"
  ELSE IF UnqualMods(P, pr, x) # {} THEN "unq" ELSE "free"
TargetsClause(P, C, it, obs) ==
  LET exp == TargetsOf(P, C, it)
      extra == obs \ exp
      x == IF extra # {} THEN CHOOSE y \in extra : TRUE ELSE CHOOSE y \in exp \ obs : TRUE
      dir == IF extra # {} THEN "extra" ELSE "missing"
      isProc == it.kind = "proc"
      pr == ProcRecOf(P, it)
      imps == IF isProc THEN Range(pr.imports) ELSE Range(ModRec(P, it.local).imports)
      isCall == isProc /\ x \in Range(pr.calls)
      what == IF isCall THEN HowResolved(P, pr, x) \o (IF pr.mod = "" THEN "@free" ELSE "@mod")
              ELSE IF x \in ModNames(P) THEN "module"
              ELSE IF \E im \in imps : x \in Range(im.only) THEN "symbol" ELSE "unknown-name"
      names == IF isCall THEN NamesOf(Resolve(P, pr, x), TRUE)
               ELSE IF x \in ModNames(P) THEN {x}
               ELSE UNION {VarNames(im.mod, x) : im \in {i \in imps : x \in Range(i.only)}}
      ic == ItemConf(C, it)
      globalOnly == names # {} /\ Hits(P, Range(C.disable), names, TRUE) /\ ~Hits(P, ic.disable \cup ic.block, names, TRUE)
  IN "targets:" \o dir \o ":" \o what \o (IF globalOnly THEN ":global" ELSE "")

\* per-visit payload: dispatch method, strategy, role, mode, targets
Payload(c, g, m) ==
  LET vs == c.visits
      bad(i) ==
        LET v == vs[i]
        IN IF v.plan # c.man.plan THEN "strategy"
           ELSE IF m.filegraph THEN (IF v.meth # "file" THEN "method" ELSE "ok")
           ELSE LET it == ItemByName(c.P, v.item)
                    ic == ItemConf(c.C, it)
                IN IF v.meth # SP!MethodOf(KindByName(g, v.item)) THEN "method"
                   ELSE IF v.role # ic.role THEN "role"
                   ELSE IF v.mode # ic.mode THEN "mode"
                   ELSE IF SeqRange(v.targets) # TargetsOf(c.P, c.C, it) THEN TargetsClause(c.P, c.C, it, SeqRange(v.targets))
                   ELSE "ok"
      firstBad == {i \in DOMAIN vs : bad(i) # "ok"}
  IN IF firstBad = {} THEN <<"ok", 0>>
     ELSE LET i == CHOOSE k \in firstBad : \A l \in firstBad : k <= l IN <<bad(i), i>>

Verdict(c) ==
  IF ~(LegalProject(c.P) /\ LegalConfig(c.P, c.C)) THEN <<"illegal-input", 0>>
  ELSE IF c.raised # "" THEN <<"raised", 0>>
  ELSE LET g == GraphOf(c)
           m == ManOf(c)
           w == Walk(g, m, c.visits, 1, {})
       IN IF w[1] # "ok" THEN w ELSE IF c.payload THEN Payload(c, g, m) ELSE <<"ok", 0>>

Init_ == tid = 1 /\ G = <<>> /\ M = <<>> /\ vseq = <<>>
Next_ ==
  /\ tid <= Len(Cases)
  /\ LET c == Cases[tid]
         v == Verdict(c)
     IN PrintT(<<"VERDICT", c.id, v[1] = "ok", v[1], v[2]>>)
  /\ tid' = tid + 1 /\ UNCHANGED <<G, M, vseq>>
TraceSpec == Init_ /\ [][Next_]_<<tid, G, M, vseq>>
=============================================================================
