--------------------------- MODULE Trace_Parametrise ---------------------------
(* C39: behaviour validation of parametrised call trees against the MiniFortran reference machine.       *)
(* A case is a Trace_FMachine case plus                                                                  *)
(*   fixed <<<<name, value>>>>  the entry's integer dummies that ParametriseTransformation replaced by   *)
(*                              constants (dic2p), and mode "preflight" (original code) | "new".         *)
(* Clauses for the transformed code ("new"):                                                             *)
(*   matching input  (every fixed dummy has its fixed value): observed = Run(prog, entry, input).out     *)
(*   other inputs: the generated guard triggers: observed = <<Abort>> (the harness records Abort when the *)
(*                 executable stopped through the guard: STOP 1 / abort callback = ERROR STOP + message). *)
(* The original code ("preflight") never aborts: plain Trace_FMachine judgement.                         *)
EXTENDS Trace_FMachine

AbortImg == <<"abort", 1, 1>>
Mismatch(c) == \E i \in 1..Len(c.fixed) :
                 LET inp == InputOf(c) nm == c.fixed[i][1] IN
                 nm \notin DOMAIN inp \/ inp[nm].t # "int" \/ inp[nm].v # c.fixed[i][2]
Aborted(c) == \E k \in 1..Len(c.observed) : c.observed[k] = AbortImg

JudgeP(c) ==
  IF c.mode = "new" /\ Mismatch(c)
  THEN (IF c.observed = <<AbortImg>> THEN <<TRUE, "ok-abort", 0>> ELSE <<FALSE, "guard-not-triggered", 0>>)
  ELSE IF Aborted(c) THEN <<FALSE, "spurious-abort", 0>>
  ELSE Judge(c)

NextP == /\ tid <= Len(Cases)
         /\ LET c == Cases[tid] j == JudgeP(c) IN PrintT(<<"VERDICT", c.id, j[1], j[2], j[3]>>)
         /\ tid' = tid + 1
SpecP == Init /\ [][NextP]_tid
=============================================================================
