---------------------------- MODULE SchedUniverse ----------------------------
(* Generator of the small-scope universe for the scheduler specifications:                        *)
(*   projects  = module assignment x call relation x import style x variable import x file mode   *)
(*   configs   = seed option x pruning option (a lattice of disable/block/ignore/expand settings  *)
(*               with plain, scoped `mod#name`, module-name and fnmatch-pattern keys)             *)
(* The records have exactly the shape documented in harness/lib_sched.py.                         *)
EXTENDS SchedProject

PN == <<"p1", "p2", "p3", "p4">>
MNames == <<"m1", "m2">>

CharTab ==
  "#p1" :> <<35,112,49>> @@ "#p2" :> <<35,112,50>> @@ "#p3" :> <<35,112,51>> @@ "#p4" :> <<35,112,52>> @@
  "m1" :> <<109,49>> @@ "m2" :> <<109,50>> @@
  "m1#p1" :> <<109,49,35,112,49>> @@ "m1#p2" :> <<109,49,35,112,50>> @@
  "m1#p3" :> <<109,49,35,112,51>> @@ "m1#p4" :> <<109,49,35,112,52>> @@
  "m2#p1" :> <<109,50,35,112,49>> @@ "m2#p2" :> <<109,50,35,112,50>> @@
  "m2#p3" :> <<109,50,35,112,51>> @@ "m2#p4" :> <<109,50,35,112,52>> @@
  "m1#v_m1" :> <<109,49,35,118,95,109,49>> @@ "m2#v_m2" :> <<109,50,35,118,95,109,50>> @@
  "p1" :> <<112,49>> @@ "p2" :> <<112,50>> @@ "p3" :> <<112,51>> @@ "p4" :> <<112,52>> @@
  "v_m1" :> <<118,95,109,49>> @@ "v_m2" :> <<118,95,109,50>> @@
  "g_m1" :> <<103,95,109,49>> @@ "g_m2" :> <<103,95,109,50>> @@
  "m1#g_m1" :> <<109,49,35,103,95,109,49>> @@ "m2#g_m2" :> <<109,50,35,103,95,109,50>> @@
  \* pattern keys used by the configuration lattice
  "*2" :> <<42,50>> @@ "*3" :> <<42,51>> @@ "*4" :> <<42,52>> @@ "m?#*" :> <<109,63,35,42>>

K(s) == [s |-> s, c |-> CharTab[s]]
TabChars(P, n) == CharTab[n]

RECURSIVE SortedSeq(_)
SortedSeq(S) == IF S = {} THEN <<>> ELSE LET m == CHOOSE x \in S : \A y \in S : x <= y IN <<m>> \o SortedSeq(S \ {m})

MapSeq(s, F(_)) == [i \in DOMAIN s |-> F(s[i])]

---------------------------------------------------------------------------------------------
Pairs(NP) == {<<i, j>> \in (1..NP) \X (1..NP) : i # j} \cup {<<2, 2>>}

\* module assignments up to renaming of modules: m2 is only used after m1
Assigns(NP) == {f \in [1..NP -> {"", "m1", "m2"}] : \A i \in 1..NP : f[i] = "m2" => \E j \in 1..(i-1) : f[j] = "m1"}

ModIdx(mn) == CHOOSE i \in DOMAIN MNames : MNames[i] = mn

\* f: module assignment, R: call relation, style: how cross-module calls are made accessible,
\* vimp: p1 additionally imports a module variable, fm: file mode,
\* ifc: if the last procedure lives in a module, that module declares the generic interface g_<mod> over it and every
\*      caller other than p1 and its siblings calls the interface instead (USE <mod>, ONLY: g_<mod> inside the caller)
MkProjectI(NP, f, R, style, vimp, fm, ifc) ==
  LET used == {f[i] : i \in 1..NP} \ {""}
      ifcOn == ifc /\ f[NP] # ""
      gname == "g_" \o f[NP]
      viaIf(i) == ifcOn /\ i >= 2 /\ i # NP /\ f[i] # f[NP] /\ <<i, NP>> \in R
      direct(i, j) == <<i, j>> \in R /\ ~(j = NP /\ viaIf(i))
      usedSeq == MapSeq(SortedSeq({ModIdx(m) : m \in used}), LAMBDA k : MNames[k])
      callees(i) == SortedSeq({j \in 1..NP : <<i, j>> \in R})
      qualified == style \in {"only_r", "only_m"}
      rlevel(i) == style \in {"only_r", "unq_r"} \/ f[i] = ""
      \* modules (other than its own) from which procedure i calls something
      tmods(i) == {f[j] : j \in {k \in 1..NP : direct(i, k)}} \ {"", f[i]}
      tmodSeq(S) == MapSeq(SortedSeq({ModIdx(m) : m \in S}), LAMBDA k : MNames[k])
      onlyOf(I, m) == MapSeq(SortedSeq({j \in 1..NP : f[j] = m /\ \E i \in I : direct(i, j)}), LAMBDA k : PN[k])
      imp(I, m) == [mod |-> m, only |-> IF qualified THEN onlyOf(I, m) ELSE <<>>]
      \* the variable import of p1: the highest used module different from p1's own
      vmods == {ModIdx(m) : m \in used \ {f[1]}}
      vmod == MNames[CHOOSE k \in vmods : \A l \in vmods : l <= k]
      vimpSeq(i) == IF vimp /\ i = 1 /\ vmods # {} THEN <<[mod |-> vmod, only |-> <<"v_" \o vmod>>]>> ELSE <<>>
      procImports(i) ==
        (IF rlevel(i) THEN MapSeq(tmodSeq(tmods(i)), LAMBDA m : imp({i}, m)) ELSE <<>>) \o vimpSeq(i)
        \o (IF viaIf(i) THEN <<[mod |-> f[NP], only |-> <<gname>>]>> ELSE <<>>)
      members(m) == {i \in 1..NP : f[i] = m}
      modImports(m) ==
        IF style \in {"only_m", "unq_m"}
        THEN MapSeq(tmodSeq(UNION {tmods(i) : i \in members(m)}), LAMBDA t : imp(members(m), t))
        ELSE <<>>
      fileOfMod(m) == IF fm = "joint" /\ m # "m1" THEN "f0" ELSE m
      fileOfProc(i) == IF f[i] # "" THEN fileOfMod(f[i]) ELSE IF fm = "joint" THEN "f0" ELSE PN[i]
  IN [mods  |-> MapSeq(usedSeq, LAMBDA m : [name |-> m, file |-> fileOfMod(m), imports |-> modImports(m), vars |-> <<"v_" \o m>>, params |-> <<>>,
                                          ifaces |-> IF ifcOn /\ m = f[NP] THEN <<[name |-> gname, procs |-> <<PN[NP]>>]>> ELSE <<>>]),
      procs |-> [i \in 1..NP |-> [name |-> PN[i], mod |-> f[i], file |-> fileOfProc(i),
                                 imports |-> procImports(i),
                                 calls |-> MapSeq(callees(i), LAMBDA j : IF j = NP /\ viaIf(i) THEN gname ELSE PN[j])]]]

MkProject(NP, f, R, style, vimp, fm) == MkProjectI(NP, f, R, style, vimp, fm, FALSE)

---------------------------------------------------------------------------------------------
(* Configuration lattice (depends on the project through the names of three distinguished          *)
(* procedures: first = p1, mid = p2, tgt = last procedure).                                        *)

RE(key) == [key |-> key, hasExpand |-> FALSE, expand |-> TRUE, hasDisable |-> FALSE, disable |-> <<>>,
            hasBlock |-> FALSE, block |-> <<>>, hasIgnore |-> FALSE, ignore |-> <<>>,
            hasRole |-> FALSE, role |-> "kernel", hasMode |-> FALSE, mode |-> "idem"]

BaseConf(seeds) == [seeds |-> seeds, expand |-> TRUE, disable |-> <<>>, block |-> <<>>, ignore |-> <<>>,
                    role |-> "kernel", mode |-> "idem", routines |-> <<>>]

Plain(pr) == [q |-> FALSE, scope |-> "", local |-> pr.name]
Qual(pr) == [q |-> TRUE, scope |-> pr.mod, local |-> pr.name]

NSeedOpts == 4
SeedsOf(P, so) ==
  LET a == P.procs[1]
      b == P.procs[2]
  IN CASE so = 1 -> <<Plain(a)>>
       [] so = 2 -> <<Qual(a)>>
       [] so = 3 -> <<Plain(a), Plain(b)>>
       [] so = 4 -> <<Plain(b), Qual(a)>>

PatOf == "p2" :> "*2" @@ "p3" :> "*3" @@ "p4" :> "*4"

NPruneOpts == 21
ConfOf(P, so, po) ==
  LET first == P.procs[1]
      mid == P.procs[2]
      tgt == P.procs[Len(P.procs)]
      fullOf(pr) == pr.mod \o "#" \o pr.name
      modkey(pr) == IF pr.mod # "" THEN pr.mod ELSE pr.name
      B == BaseConf(SeedsOf(P, so))
  IN CASE po = 1 -> B
       [] po = 2 -> [B EXCEPT !.disable = <<K(tgt.name)>>]
       [] po = 3 -> [B EXCEPT !.disable = <<K(fullOf(tgt))>>]
       [] po = 4 -> [B EXCEPT !.disable = <<K(modkey(tgt))>>]
       [] po = 5 -> [B EXCEPT !.block = <<K(tgt.name)>>]
       [] po = 6 -> [B EXCEPT !.routines = <<[RE(mid.name) EXCEPT !.hasBlock = TRUE, !.block = <<K(tgt.name)>>]>>]
       [] po = 7 -> [B EXCEPT !.routines = <<[RE(fullOf(mid)) EXCEPT !.hasDisable = TRUE, !.disable = <<K(fullOf(tgt))>>]>>]
       [] po = 8 -> [B EXCEPT !.ignore = <<K(tgt.name)>>]
       [] po = 9 -> [B EXCEPT !.routines = <<[RE(mid.name) EXCEPT !.hasIgnore = TRUE, !.ignore = <<K(modkey(tgt))>>]>>]
       [] po = 10 -> [B EXCEPT !.routines = <<[RE(mid.name) EXCEPT !.hasExpand = TRUE, !.expand = FALSE]>>]
       [] po = 11 -> [B EXCEPT !.expand = FALSE, !.routines = <<[RE(first.name) EXCEPT !.hasExpand = TRUE, !.expand = TRUE]>>]
       [] po = 12 -> [B EXCEPT !.disable = <<K(tgt.name)>>,
                               !.routines = <<[RE(mid.name) EXCEPT !.hasDisable = TRUE, !.disable = <<>>]>>]
       [] po = 13 -> [B EXCEPT !.block = <<K(tgt.name)>>,
                               !.routines = <<[RE(mid.name) EXCEPT !.hasBlock = TRUE, !.block = <<>>]>>]
       [] po = 14 -> [B EXCEPT !.ignore = <<K(mid.name)>>]
       [] po = 15 -> [B EXCEPT !.disable = <<K("v_m1"), K("v_m2")>>]
       [] po = 16 -> [B EXCEPT !.disable = <<K(PatOf[tgt.name])>>]
       [] po = 17 -> [B EXCEPT !.routines = <<[RE(first.name) EXCEPT !.hasBlock = TRUE, !.block = <<K("m?#*")>>]>>]
       [] po = 18 -> [B EXCEPT !.routines = <<[RE("m1") EXCEPT !.hasExpand = TRUE, !.expand = FALSE],
                                               [RE(mid.name) EXCEPT !.hasIgnore = TRUE, !.ignore = <<K(fullOf(tgt))>>]>>]
       \* union rule: the global disable list also applies below a routine that has its OWN, different lists
       [] po = 19 -> [B EXCEPT !.disable = <<K(tgt.name)>>,
                               !.routines = <<[RE(mid.name) EXCEPT !.hasDisable = TRUE, !.disable = <<K("v_m1")>>]>>]
       [] po = 20 -> [B EXCEPT !.disable = <<K(fullOf(tgt))>>,
                               !.routines = <<[RE(mid.name) EXCEPT !.hasDisable = TRUE, !.disable = <<>>,
                                                                   !.hasBlock = TRUE, !.block = <<K(first.name)>>]>>]
       [] po = 21 -> [B EXCEPT !.disable = <<K(PatOf[tgt.name])>>,
                               !.routines = <<[RE(fullOf(mid)) EXCEPT !.hasDisable = TRUE, !.disable = <<K("v_m2")>>,
                                                                      !.hasIgnore = TRUE, !.ignore = <<K(first.name)>>]>>]
=============================================================================
