INIT Init
NEXT Next
CONSTANT Big = FALSE
