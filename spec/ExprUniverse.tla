---------------------------- MODULE ExprUniverse ----------------------------
(* The bounded universe of arithmetic expression trees (FExpr format) that C06/C08 explore       *)
(* exhaustively: every tree of operator depth <= 2 over a small alphabet, with and without       *)
(* explicit parenthesis nodes — in particular the trees that parsing never produces (a quotient  *)
(* whose denominator is a plain product, a power of a power, ...).  TLC enumerates the set and    *)
(* serialises it as JSON for the harness.                                                         *)
EXTENDS Integers, Sequences, FiniteSets, TLC, Json, IOUtils, SequencesExt

Var(n) == [k |-> "var", name |-> n]
IntL(v) == [k |-> "int", v |-> v]
Leaves  == {Var("a"), Var("b"), Var("c"), IntL(2), IntL(3)}
Leaves0 == {Var("a"), Var("b"), IntL(2)}            \* leaves used below depth 1

Bin(k, x, y) == [k |-> k, c |-> <<x, y>>]
Un(k, x) == [k |-> k, c |-> <<x>>]
BinOps == {"sum", "prod", "quot", "pow"}

U1 == {Bin(k, x, y) : k \in BinOps, x \in Leaves0, y \in Leaves0}
      \cup {Un("neg", x) : x \in Leaves0}
      \cup {[k |-> "sum", c |-> <<Var("a"), Var("b"), Var("c")>>], [k |-> "prod", c |-> <<Var("a"), Var("b"), Var("c")>>]}
P1 == U1 \cup {Un("par", x) : x \in U1}
Operands == P1 \cup Leaves0
U2 == {Bin(k, x, y) : k \in BinOps, x \in Operands, y \in Operands} \cup {Un("neg", x) : x \in P1}
\* flattened products with a leading constant -1 (what operator overloading / flattening builds:
\* -a * (b / c)  ->  Product((-1, a, Quotient(b, c)))); "raw" marks the bare python constant
MinusOne == [k |-> "int", v |-> -1, raw |-> TRUE]
U3 == {[k |-> "prod", c |-> <<MinusOne, x, y>>] : x \in Leaves0, y \in Operands}
      \cup {[k |-> "prod", c |-> <<MinusOne, y, x>>] : x \in Leaves0, y \in Operands}
Universe == U1 \cup U2 \cup U3 \cup Leaves

ASSUME PrintT(<<"UNIVERSE", Cardinality(U1), Cardinality(U2), Cardinality(Universe)>>)
ASSUME JsonSerialize(IOEnv.OUT, SetToSeq(Universe))
VARIABLE x
Init == x = 0
Next == UNCHANGED x
=============================================================================
