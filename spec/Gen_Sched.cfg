SPECIFICATION GSpec
CONSTANT NameChars <- TabChars
CONSTANT NP = 4
CONSTANT Styles = {"only_r", "only_m", "unq_r", "unq_m"}
CONSTANT VarImps = {FALSE, TRUE}
CONSTANT FileModes = {"sep", "joint"}
CONSTANT SeedOpts = {1, 2, 3, 4}
CONSTANT PruneOpts = {1, 2, 3, 4, 5, 6, 7, 8, 9, 10, 11, 12, 13, 14, 15, 16, 17, 18, 19, 20, 21}
CONSTANT Ifcs = {FALSE}
CHECK_DEADLOCK FALSE
