SPECIFICATION Spec
INVARIANT FirstDiffIsWitness
INVARIANT OnePassAccepted
INVARIANT IdentityVsChanged
INVARIANT NestedRejected
INVARIANT RaisedRejected
