---- MODULE MC_LoopRange ----
EXTENDS LoopRange
VARIABLE x
Init == x = 0
Next == UNCHANGED x
====
