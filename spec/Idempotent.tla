----------------------------- MODULE Idempotent -----------------------------
(***************************************************************************)
(* C40: a normalising transformation T is idempotent: applying it a second *)
(* time leaves the code unchanged.                                         *)
(*                                                                         *)
(* Code is observed as printed text: a sequence of lines (strings).  For a *)
(* source s the harness records                                            *)
(*     text0 = print(s)      text1 = print(T(s))      text2 = print(T(T(s)))*)
(* The property constrains text1 and text2 only: they must be the same     *)
(* sequence of lines.  text0 is recorded to tell whether T did anything to *)
(* this source (vacuity accounting - it takes no part in the verdict).     *)
(* A second application that fails (raises) although the first succeeded   *)
(* is recorded as status2 = "raised": the code is then not "left           *)
(* unchanged" either.                                                      *)
(***************************************************************************)
EXTENDS Naturals, Sequences

Min2(a, b) == IF a <= b THEN a ELSE b

\* length of the longest common prefix of two line sequences
RECURSIVE CommonPrefix(_, _, _)
CommonPrefix(a, b, k) == IF k < Min2(Len(a), Len(b)) /\ a[k + 1] = b[k + 1] THEN CommonPrefix(a, b, k + 1) ELSE k

\* 0 iff the texts are equal, else the (1-based) number of the first line at which they differ
\* (= length of the shorter text + 1 when one is a proper prefix of the other)
FirstDiff(a, b) == IF a = b THEN 0 ELSE CommonPrefix(a, b, 0) + 1

Idem(text1, text2) == text1 = text2

\* verdict for one recorded case: <<accepted, clause, first differing line>>
Judge(c) ==
  IF c.status2 # "ok" THEN <<FALSE, "second-application-raised", 0>>
  ELSE IF Idem(c.text1, c.text2)
       THEN <<TRUE, IF c.text0 = c.text1 THEN "ok:identity" ELSE "ok:changed-once", 0>>
       ELSE <<FALSE, "second-application-changes-text", FirstDiff(c.text1, c.text2)>>

(***************************************************************************)
(* Design level: what idempotence means for rewriters over a small token   *)
(* language, used by MC_Idempotent to check that the clause accepts a      *)
(* normaliser that reaches its normal form in one application and rejects  *)
(* one that needs two.  Tokens: "A" "a" (a name in two spellings), "T(" ")"*)
(* (an always-true conditional around the tokens up to the matching ")"),  *)
(* "x" (a statement).                                                      *)
(***************************************************************************)
Lower(s) == [i \in 1..Len(s) |-> IF s[i] = "A" THEN "a" ELSE s[i]]

\* index of the ")" matching the "T(" at position i (0 if unbalanced)
RECURSIVE Match(_, _, _)
Match(s, j, depth) == IF j > Len(s) THEN 0
                      ELSE IF s[j] = "T(" THEN Match(s, j + 1, depth + 1)
                      ELSE IF s[j] = ")" THEN (IF depth = 0 THEN j ELSE Match(s, j + 1, depth - 1))
                      ELSE Match(s, j + 1, depth)
Balanced(s) == \A i \in 1..Len(s) : s[i] = "T(" => Match(s, i + 1, 0) # 0
\* remove every always-true conditional, innermost included (one application reaches the normal form)
RECURSIVE PruneAll(_)
PruneAll(s) == SelectSeq(s, LAMBDA t : t \notin {"T(", ")"})
\* remove only the outermost level of always-true conditionals (a second application finds more)
RECURSIVE PruneOuter(_, _)
PruneOuter(s, i) == IF i > Len(s) THEN <<>>
                    ELSE IF s[i] = "T(" /\ Match(s, i + 1, 0) # 0
                         THEN LET m == Match(s, i + 1, 0) IN SubSeq(s, i + 1, m - 1) \o PruneOuter(s, m + 1)
                         ELSE <<s[i]>> \o PruneOuter(s, i + 1)
=============================================================================
