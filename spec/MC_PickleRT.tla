---- MODULE MC_PickleRT ----
EXTENDS PickleRT
====
