SPECIFICATION GSpec
CONSTANT N = 8
CHECK_DEADLOCK FALSE
