SPECIFICATION TraceSpec
CONSTANT MutShareBody = FALSE
CONSTANT MutShareSpec = FALSE
CONSTANT MutShareTab = FALSE
CONSTANT MutShareMembers = FALSE
CONSTANT MutNoRescope = FALSE
CONSTANT MutStaleProcs = FALSE
CONSTANT MutRegisterInParent = FALSE
CONSTANT MutShareNest = FALSE
CONSTANT MaxDepth = 99
INVARIANT ModelOwnChain
CHECK_DEADLOCK FALSE
