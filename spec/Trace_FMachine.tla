---------------------------- MODULE Trace_FMachine ----------------------------
(* Behaviour validation against the MiniFortran reference machine.  A case is                    *)
(*   [id, prog, entry, input <<[name, val]>>, observed <<<<tag, n, d>>>>, mode]                    *)
(* `observed` is what an execution of real code printed (gfortran running the original text for  *)
(* the pre-flight, or the code Loki emitted / transformed).  Accepted iff it equals              *)
(* Run(prog, entry, input).out.  Programs on which the machine itself fails (illegal program:    *)
(* undefined read, out-of-bounds, division by zero, ...) are reported as "illegal:<why>" - the    *)
(* harness treats those as generator faults, never as violations.                                 *)
EXTENDS FMachine, Json, IOUtils
Cases == JsonDeserialize(IOEnv.CASES)

\* JSON image of a value -> machine value.  Arrays arrive as [t |-> "arr", lb, ub, els] in element order.
RECURSIVE InVal(_)
InVal(j) == CASE j.t = "int" -> I(j.v)
              [] j.t = "real" -> Q(j.n, j.d)
              [] j.t = "log" -> L(j.v)
              [] j.t = "arr" -> LET order == ColMajor(j.lb, j.ub, Len(j.lb)) IN
                                [t |-> "arr", lb |-> j.lb, ub |-> j.ub,
                                 data |-> TLCEval([ix \in IdxSet(j.lb, j.ub, 1) |->
                                             InVal(j.els[CHOOSE k \in 1..Len(order) : order[k] = ix])])]
InputOf(c) == TLCEval([n \in {c.input[i][1] : i \in 1..Len(c.input)} |->
                 InVal(c.input[CHOOSE i \in 1..Len(c.input) : c.input[i][1] = n][2])])

FirstDiff(a, b) == IF \E k \in 1..Min2(Len(a), Len(b)) : a[k] # b[k]
                   THEN CHOOSE k \in 1..Min2(Len(a), Len(b)) : a[k] # b[k] /\ \A m \in 1..(k - 1) : a[m] = b[m]
                   ELSE Min2(Len(a), Len(b)) + 1

Judge(c) ==
  LET r == Run(c.prog, c.entry, InputOf(c)) IN
  IF ~r.ok THEN <<FALSE, "illegal:" \o r.why, 0>>
  ELSE IF r.out = c.observed THEN <<TRUE, "ok", Len(r.out)>>
  ELSE LET k == FirstDiff(r.out, c.observed) IN
       <<FALSE, "output-differs:at=" \o ToString(k) \o ":expected=" \o (IF k <= Len(r.out) THEN ToString(r.out[k]) ELSE "end")
                \o ":observed=" \o (IF k <= Len(c.observed) THEN ToString(c.observed[k]) ELSE "end")
                \o ":lengths=" \o ToString(Len(r.out)) \o "/" \o ToString(Len(c.observed)), k>>

VARIABLE tid
Init == tid = 1
Next == /\ tid <= Len(Cases)
        /\ LET c == Cases[tid] j == Judge(c) IN PrintT(<<"VERDICT", c.id, j[1], j[2], j[3]>>)
        /\ tid' = tid + 1
Spec == Init /\ [][Next]_tid
=============================================================================
