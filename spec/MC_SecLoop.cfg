SPECIFICATION Spec
INVARIANT RefLegal
INVARIANT ExactMapSafe
INVARIANT OffsetMapSafe
CHECK_DEADLOCK FALSE
