----------------------------- MODULE MC_SecLoop -----------------------------
EXTENDS SecLoop, TLC
Dcl(n, intent, dims) == [name |-> n, type |-> "int", intent |-> intent, dims |-> dims, init |-> None]
Prog(stmt) == [units |-> <<[name |-> "kernel", kind |-> "subroutine", args |-> <<"v", "w">>,
                            decls |-> <<Dcl("v", "inout", <<<<0, 3>>>>), Dcl("w", "in", <<<<0, 3>>>>), Dcl("q", "local", <<>>)>>,
                            body |-> <<stmt>>, result |-> "", host |-> ""]>>]
Arr(vals) == [t |-> "arr", lb |-> <<0>>, ub |-> <<3>>, data |-> [ix \in {<<i>> : i \in 0..3} |-> I(vals[ix[1] + 1])]]
Input == [v |-> Arr(<<1, 20, 300, 4000>>), w |-> Arr(<<7, 70, 700, 7000>>)]
InRange(l, s, n) == l \in 0..3 /\ Hi(l, s, n) \in 0..3
Descr == {d \in [src : {"v", "w"}, l1 : 0..3, s1 : {1, 2, -1}, l2 : 0..3, s2 : {1, 2, -1}, n : 1..4, c : {1}] :
            InRange(d.l1, d.s1, d.n) /\ InRange(d.l2, d.s2, d.n)}

VARIABLE d
Init == d \in Descr
Next == UNCHANGED d
Spec == Init /\ [][Next]_d

Ref(x) == Run(Prog(SectionStmt(x)), "kernel", Input)
Exact(x) == Run(Prog(LoopStmt(x, ExactIdx(x))), "kernel", Input)
Offset(x) == Run(Prog(LoopStmt(x, OffsetIdx(x))), "kernel", Input)
RefLegal == Ref(d).ok
ExactMapSafe == NoCarried(d) => (Exact(d).ok /\ Exact(d).out = Ref(d).out)
OffsetMapSafe == (NoCarried(d) /\ d.s1 = d.s2) => (Offset(d).ok /\ Offset(d).out = Ref(d).out)
ASSUME \E x \in Descr : ~NoCarried(x) /\ Exact(x).out # Ref(x).out                      \* the overlap condition matters
ASSUME \E x \in Descr : NoCarried(x) /\ x.s1 # x.s2 /\ (~Offset(x).ok \/ Offset(x).out # Ref(x).out)   \* so do the strides
=============================================================================
