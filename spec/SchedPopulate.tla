---------------------------- MODULE SchedPopulate ----------------------------
(* The queue-based population algorithm of the scheduler graph (SGraph._populate /               *)
(* _add_children) as a state machine, and its design-level correctness statement:                 *)
(*     Terminated  =>  graph = PrunedClosure(project, config)          (C21)                      *)
(* The project / configuration are chosen by the model (MC_SchedPopulate: all small projects x a  *)
(* lattice of pruning configurations); `tgt` holds PrunedClosure(P, C), computed once.            *)
EXTENDS SchedProject

VARIABLES P, C,        \* project and configuration (never change once chosen)
          tgt,         \* the declarative target PrunedClosure(P, C)
          order,       \* sequence of items in order of insertion into the graph (Scheduler.items)
          edges,       \* set of <<parent, child>>
          queue,       \* work queue
          ign,         \* item -> is_ignored flag (last writer wins, as in the implementation)
          pc           \* "pick.." (model only) | "seed" | "run"

pvars == <<P, C, tgt, order, edges, queue, ign, pc>>

InGraph(it) == it \in Range(order)

\* --- Seed: all seeds are resolved and inserted; every resolved seed is queued (also twice)
Seed ==
  /\ pc = "seed"
  /\ LET ss == SeedSeq(P, C)
     IN /\ order' = Dedup(ss)
        /\ queue' = ss
        /\ ign' = [x \in Range(ss) |-> FALSE]
  /\ edges' = {}
  /\ pc' = "run"
  /\ UNCHANGED <<P, C, tgt>>

\* --- one _add_children step for the head of the queue.
\* The flag of every (non-pruned) dependency is overwritten, in dependency order, with
\*   flag(parent) \/ "dependency matches parent's ignore list"; the parent itself may be among its
\*   dependencies (recursion), in which case later dependencies see its updated flag.
RECURSIVE WriteFlags(_, _, _)
WriteFlags(f, it, kids) ==
  IF kids = <<>> THEN f
  ELSE LET k == Head(kids)
           v == f[it] \/ IgnoreHit(P, C, it, k)
           f2 == [x \in DOMAIN f \cup {k} |-> IF x = k THEN v ELSE f[x]]
       IN WriteFlags(f2, it, Tail(kids))

PopChild ==
  /\ pc = "run" /\ queue # <<>>
  /\ LET it == Head(queue)
         kids == ChildSeq(P, C, it)
         new == SelectSeq(kids, LAMBDA k : ~InGraph(k))
     IN /\ order' = order \o new
        /\ queue' = Tail(queue) \o new
        /\ edges' = edges \cup {<<it, k>> : k \in Range(kids) \ {it}}
        /\ ign' = WriteFlags(ign, it, kids)
  /\ UNCHANGED <<P, C, tgt, pc>>

Terminated == pc = "run" /\ queue = <<>>

PNext == Seed \/ PopChild

---------------------------------------------------------------------------------------------
(* Design invariants                                                                            *)

Idx(it) == CHOOSE i \in DOMAIN order : order[i] = it

\* partial correctness while running: never anything outside the closure, no item twice
Sound == pc = "run" => /\ Range(order) \subseteq tgt.nodes
                       /\ edges \subseteq tgt.edges
                       /\ \A i, j \in DOMAIN order : order[i] = order[j] => i = j

\* C21 at design level
GraphIsPrunedClosure == Terminated => Range(order) = tgt.nodes /\ edges = tgt.edges

\* every final flag is justified by the per-parent rule
FlagsJustified == Terminated => \A x \in Range(order) : ign[x] \in tgt.poss[x]

\* insertion order is a breadth-first order: seeds first, and items are ordered by the position of
\* their earliest parent (ties arbitrary)
FirstParent(x) == LET ps == {Idx(e[1]) : e \in {d \in edges : d[2] = x}} IN CHOOSE i \in ps : \A j \in ps : i <= j
BfsOrder ==
  Terminated =>
    LET S == Range(SeedSeq(P, C))
        ns == {x \in Range(order) : x \notin S}
    IN /\ \A s \in S, x \in ns : Idx(s) < Idx(x)
       /\ \A x, y \in ns : Idx(x) < Idx(y) => FirstParent(x) <= FirstParent(y)

\* every queued item is in the graph
QueueInGraph == pc = "run" => Range(queue) \subseteq Range(order)
=============================================================================
