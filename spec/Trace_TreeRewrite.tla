-------------------------- MODULE Trace_TreeRewrite --------------------------
(* Batch validation of observed runs of the real transformer classes (C14).                   *)
(* One case = one call  cls(mapper, start, stop, ..., inplace, rebuild_scopes).visit(tree):   *)
(*   c.tree / c.map / c.start / ... : the abstract input (tree nodes carry the object ids o)   *)
(*   c.outcome : "ok" or the exception type;  c.result : the returned tree(s), exported by an  *)
(*   independent structural recursion;  c.orig : the original tree exported after the call;    *)
(*   c.rebuilt : the Transformer.rebuilt record as (object id of key, pre-order index of the   *)
(*   value in the result).                                                                     *)
(* The verdict is TreeRewrite!Verdict: result = Apply(T, M), object identity under inplace,    *)
(* OriginalUntouched, RebuiltCoversOriginal; illegal (under-specified) inputs are skipped.     *)
EXTENDS TreeRewrite, Json, IOUtils

Cases == JsonDeserialize(IOEnv.CASES)

VARIABLE tid
Init_ == tid = 1
Next_ ==
  /\ tid <= Len(Cases)
  /\ LET c == Cases[tid]
         v == Verdict(c, [outcome |-> c.outcome, result |-> c.result, orig |-> c.orig, rebuilt |-> c.rebuilt])
     IN  PrintT(<<"VERDICT", c.id, v = "ok" \/ v = "skip:illegal", v, 0>>)
  /\ tid' = tid + 1
TraceSpec == Init_ /\ [][Next_]_tid
=============================================================================
