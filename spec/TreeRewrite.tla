---------------------------- MODULE TreeRewrite ----------------------------
(***************************************************************************)
(* C14  The tree transformer applies exactly the requested node mapping.   *)
(*                                                                         *)
(* Abstract IR trees (loki.ir nodes) and the four rebuilding visitors of   *)
(* loki/ir/transformer.py: Transformer ("T"), NestedTransformer ("N"),     *)
(* MaskedTransformer ("M"), NestedMaskedTransformer ("NM").                *)
(*                                                                         *)
(* A node is a record  [k, t, b, o]                                        *)
(*   k : kind   "leaf" (Comment) "asg" (Assignment) "loop" "sec" (Section) *)
(*              "assoc" (Associate, the scoped node) "cond" (Conditional:  *)
(*              body, else_body) "multi" (MultiConditional: one slot per   *)
(*              case body, the last slot is the default body)              *)
(*   t : tag    the node's own content (text / lhs / loop variable /       *)
(*              label / condition); frozen attributes are folded in by the *)
(*              exporter                                                   *)
(*   b : slots  sequence of child sequences (<<>> for leaves)              *)
(*   o : object identity recorded by the harness (0 = not an object of the *)
(*       original tree).  Never looked at by the contract itself.          *)
(* Loki IR nodes are frozen dataclasses: equality and hashing are          *)
(* structural.  Hence a mapping key denotes a TERM (Strip(n)) and applies  *)
(* to every occurrence of that term ("duplicate nodes").                   *)
(*                                                                         *)
(* A mapping is a sequence of entries [key, typ, val]:                     *)
(*   key : <<term>> (node key) or <<t1,..,tm>>, m >= 2 (window of          *)
(*         consecutive siblings - the multi-node keys of the test corpus)  *)
(*   typ : "none" (remove) | "node" (replace) | "tuple" (splice)           *)
(*   val : sequence of replacement nodes (one for "node")                  *)
(***************************************************************************)
EXTENDS Integers, Sequences, FiniteSets, TLC

Count(s, x) == Cardinality({j \in 1..Len(s) : s[j] = x})
RECURSIVE Flat(_)
Flat(ss) == IF Len(ss) = 0 THEN <<>> ELSE Head(ss) \o Flat(Tail(ss))

\* NOTE (TLC): sequences are always built eagerly (<<x>> \o ...), never with [i \in 1..n |-> e]:
\* TLC keeps the latter as a lazy function whose body is re-evaluated on every access, which is
\* exponential for nested recursive definitions.
RECURSIVE Strip(_), StripSeq(_), StripSlots(_)
Strip(n) == [k |-> n.k, t |-> n.t, b |-> StripSlots(n.b)]
StripSlots(bs) == IF Len(bs) = 0 THEN <<>> ELSE <<StripSeq(Head(bs))>> \o StripSlots(Tail(bs))
StripSeq(s) == IF Len(s) = 0 THEN <<>> ELSE <<Strip(Head(s))>> \o StripSeq(Tail(s))

\* all sub-terms of a node / a sequence (including the nodes themselves)
RECURSIVE Subs(_)
Subs(n) == {Strip(n)} \cup UNION {UNION {Subs(n.b[i][j]) : j \in 1..Len(n.b[i])} : i \in 1..Len(n.b)}
SubsSeq(s) == UNION {Subs(s[j]) : j \in 1..Len(s)}
ProperSubs(n) == UNION {SubsSeq(n.b[i]) : i \in 1..Len(n.b)}

\* pre-order list of the nodes of a sequence
RECURSIVE Pre(_), PreSlots(_)
PreSlots(bs) == IF Len(bs) = 0 THEN <<>> ELSE Pre(Head(bs)) \o PreSlots(Tail(bs))
Pre(s) == IF Len(s) = 0 THEN <<>> ELSE <<Head(s)>> \o PreSlots(Head(s).b) \o Pre(Tail(s))

IsLeafKind(n) == n.k \in {"leaf", "asg"}
Scoped(n) == n.k = "assoc"
HasScoped(s) == \E x \in SubsSeq(s) : x.k = "assoc"

\* every node of the sub-tree loses its identity (used for nodes whose identity is not specified)
\* o = -1: replacement material supplied by the caller (no statement about its identity)
\* o = -2: the key inside its own one-to-many handle and its rebuilt sub-tree: images of nodes of the
\*         original (so they must be rebuilt objects when not in place), but which of several equal
\*         objects they stem from is not specified
RECURSIVE Mark(_, _), MarkSeq(_, _), MarkSlots(_, _)
Mark(n, v) == [n EXCEPT !.o = IF n.o = -1 THEN -1 ELSE v, !.b = MarkSlots(n.b, v)]
MarkSlots(bs, v) == IF Len(bs) = 0 THEN <<>> ELSE <<MarkSeq(Head(bs), v)>> \o MarkSlots(Tail(bs), v)
MarkSeq(s, v) == IF Len(s) = 0 THEN <<>> ELSE <<Mark(Head(s), v)>> \o MarkSeq(Tail(s), v)
Anon(n) == Mark(n, -1)
AnonSeq(s) == MarkSeq(s, -1)

(***************************************************************************)
(* Mapping look-up                                                         *)
(***************************************************************************)
NodeEntries(M) == {i \in 1..Len(M) : Len(M[i].key) = 1}
WinEntries(M)  == {i \in 1..Len(M) : Len(M[i].key) > 1}
KeyOf(n, M) == LET S == {i \in NodeEntries(M) : M[i].key[1] = Strip(n)}
               IN  IF S = {} THEN 0 ELSE CHOOSE i \in S : TRUE
NodeKeys(M) == {M[i].key[1] : i \in NodeEntries(M)}
WinElems(M) == UNION {{M[i].key[j] : j \in 1..Len(M[i].key)} : i \in WinEntries(M)}
SubOf(e) == IF e.typ = "none" THEN <<>> ELSE AnonSeq(e.val)

\* replace every (non-overlapping, left-to-right) occurrence of a window of consecutive siblings
RECURSIVE RepWin(_, _, _)
RepWin(s, key, sub) ==
  IF Len(s) < Len(key) THEN s
  ELSE IF \A j \in 1..Len(key) : Strip(s[j]) = key[j]
       THEN sub \o RepWin(SubSeq(s, Len(key) + 1, Len(s)), key, sub)
       ELSE <<s[1]>> \o RepWin(Tail(s), key, sub)
RECURSIVE AllWin(_, _, _)
AllWin(s, M, i) == IF i > Len(M) THEN s
                   ELSE AllWin(IF Len(M[i].key) > 1 THEN RepWin(s, M[i].key, SubOf(M[i])) ELSE s, M, i + 1)

\* the elements of a one-to-many handle; the key itself may be one of them and then IS the node
\* itself, rebuilt with its children transformed (`self`): mappings below it are applied, every
\* descendant is rebuilt and recorded (the contract of the implementation's "making sure this is
\* not replaced again" branch, and what "every other node keeps its content" / "the record covers
\* every node of the original" demand)
RECURSIVE SpliceR(_, _, _)
SpliceR(val, key, self) == IF Len(val) = 0 THEN <<>>
                           ELSE (IF Strip(Head(val)) = key THEN <<Mark(self, -2)>> ELSE <<Anon(Head(val))>>) \o SpliceR(Tail(val), key, self)
Splice(e, n, self) == SpliceR(e.val, Strip(n), self)

(***************************************************************************)
(* Transformer: pre-order.  "The mapping is applied before visiting any    *)
(* children of a node": a mapped node is dropped (None), replaced (node)   *)
(* or spliced into the containing tuple (iterable) and NOT descended into; *)
(* every other node is rebuilt from its transformed children.              *)
(***************************************************************************)
RECURSIVE TSeq(_, _), TNode(_, _), TKeep(_, _), TSlots(_, _), TEach(_, _)
TSlots(bs, M) == IF Len(bs) = 0 THEN <<>> ELSE <<TSeq(Head(bs), M)>> \o TSlots(Tail(bs), M)
TEach(w, M) == IF Len(w) = 0 THEN <<>> ELSE TNode(Head(w), M) \o TEach(Tail(w), M)
TKeep(n, M) == [n EXCEPT !.b = TSlots(n.b, M)]
TNode(n, M) ==
  LET i == KeyOf(n, M) IN
  IF i = 0 THEN <<TKeep(n, M)>>
  ELSE CASE M[i].typ = "none"  -> <<>>
         [] M[i].typ = "node"  -> <<Anon(M[i].val[1])>>
         [] M[i].typ = "tuple" -> Splice(M[i], n, TKeep(n, M))
TSeq(s, M) == TEach(AllWin(s, M, 1), M)

(***************************************************************************)
(* NestedTransformer: "applies replacements in a depth-first fashion",     *)
(* "visits all children before applying the mapper".  Same contract; the   *)
(* children of a mapped node are transformed first, which is observable    *)
(* when the handle re-uses the key (self-containing tuple) or is the key    *)
(* with other frozen attributes ("relabel": same kind, same children).     *)
(* Windows are matched on the transformed siblings and the handle is not   *)
(* revisited (it may therefore wrap the window's own nodes).               *)
(***************************************************************************)
Relabel(h, n) == h.k = n.k /\ Strip(h).b = Strip(n).b /\ Len(n.b) > 0
RECURSIVE NSeq(_, _), NNode(_, _), NKeep(_, _), NSlots(_, _), NEach(_, _)
NSlots(bs, M) == IF Len(bs) = 0 THEN <<>> ELSE <<NSeq(Head(bs), M)>> \o NSlots(Tail(bs), M)
NEach(w, M) == IF Len(w) = 0 THEN <<>> ELSE NNode(Head(w), M) \o NEach(Tail(w), M)
NKeep(n, M) == [n EXCEPT !.b = NSlots(n.b, M)]
NNode(n, M) ==
  LET i == KeyOf(n, M) IN
  IF i = 0 THEN <<NKeep(n, M)>>
  ELSE CASE M[i].typ = "none"  -> <<>>
         [] M[i].typ = "node"  -> LET h == M[i].val[1] IN
                                  IF Relabel(h, n) THEN <<[h EXCEPT !.o = -1, !.b = NKeep(n, M).b]>> ELSE <<Anon(h)>>
         [] M[i].typ = "tuple" -> Splice(M[i], n, NKeep(n, M))
NSeq(s, M) == AllWin(NEach(s, M), M, 1)

(***************************************************************************)
(* MaskedTransformer / NestedMaskedTransformer.                            *)
(* Traversal state st = [active, start, stop, amb]; P = [ras, gs] are the  *)
(* flags require_all_start / greedy_stop.  Encountering a node updates the *)
(* state BEFORE the node is judged ("start nodes are included, stop nodes  *)
(* excluded").  amb records that the outcome depended on something the     *)
(* docstrings leave open (such cases are skipped by Legal).                *)
(***************************************************************************)
Upd(st, x, P) ==
  LET s1 == IF P.ras
            THEN IF x \in st.start
                 THEN [st EXCEPT !.start = @ \ {x}, !.active = st.active \/ (st.start \ {x} = {})]
                 ELSE [st EXCEPT !.active = st.active /\ x \notin st.stop]
            ELSE [st EXCEPT !.active = (st.active /\ x \notin st.stop) \/ x \in st.start]
  IN  IF P.gs /\ x \in st.stop THEN [s1 EXCEPT !.start = {}, !.active = FALSE] ELSE s1

\* A mapped node met by a masked transformer: the mapping wins.  Whether it should when the
\* transformer is switched off is not documented => ambiguous unless active.
MMapped(n, i, M, s1) ==
  [r |-> CASE M[i].typ = "none"  -> <<>>
           [] M[i].typ = "node"  -> <<Anon(M[i].val[1])>>
           [] M[i].typ = "tuple" -> AnonSeq(M[i].val),
   st |-> [s1 EXCEPT !.amb = @ \/ ~s1.active]]

\* The NestedMaskedTransformer docstring promises to retain every InternalNode with an included
\* child.  Associate IS an InternalNode; with this switch the spec demands it (strict reading).
\* FALSE = the scoped node follows the MaskedTransformer rule (see notes/C14.md).
NMScopedRetained == TRUE

RECURSIVE MSeq(_, _, _, _, _), MNode(_, _, _, _, _), MSlots(_, _, _, _, _, _)
\* nested = FALSE: MaskedTransformer, TRUE: NestedMaskedTransformer
MSeq(s, st, M, P, nested) ==
  IF Len(s) = 0 THEN [r |-> <<>>, st |-> st]
  ELSE LET h == MNode(s[1], st, M, P, nested)
           t == MSeq(Tail(s), h.st, M, P, nested)
       IN  [r |-> h.r \o t.r, st |-> t.st]
MSlots(bs, i, st, M, P, nested) ==
  IF i > Len(bs) THEN [bs |-> <<>>, st |-> st]
  ELSE LET h == MSeq(bs[i], st, M, P, nested)
           t == MSlots(bs, i + 1, h.st, M, P, nested)
       IN  [bs |-> <<h.r>> \o t.bs, st |-> t.st]
MNode(n, st, M, P, nested) ==
  LET s1 == Upd(st, Strip(n), P)
      i  == KeyOf(n, M)
  IN
  IF i # 0 THEN MMapped(n, i, M, s1)
  ELSE IF IsLeafKind(n) THEN [r |-> IF s1.active THEN <<n>> ELSE <<>>, st |-> s1]
  ELSE
    LET c == MSlots(n.b, 1, s1, M, P, nested) IN
    IF ~nested \/ (Scoped(n) /\ ~NMScopedRetained)
    THEN \* MaskedTransformer: an internal node is included only if the transformer was switched
         \* on before visiting it; otherwise only its included body nodes are retained.
         \* (NestedMaskedTransformer documents "any InternalNode is included as long as any of its
         \*  children is included"; for the scoped node see NMScopedRetained below.)
         [r |-> IF s1.active THEN <<[n EXCEPT !.b = c.bs]>> ELSE Flat(c.bs), st |-> c.st]
    ELSE IF n.k = "cond"
    THEN \* removed if body is empty; in that case else_body is returned
         [r |-> IF Len(c.bs[1]) = 0 THEN c.bs[2] ELSE <<[n EXCEPT !.b = c.bs]>>, st |-> c.st]
    ELSE IF n.k = "multi"
    THEN \* removed if all bodies are empty; then the default body is returned.  What happens to
         \* single vanishing bodies is not documented => ambiguous unless all or none vanish
         LET m     == Len(c.bs)
             empty == {j \in 1..(m - 1) : Len(c.bs[j]) = 0}
         IN  [r |-> IF empty = 1..(m - 1) THEN c.bs[m] ELSE <<[n EXCEPT !.b = c.bs]>>,
              st |-> [c.st EXCEPT !.amb = @ \/ (empty # {} /\ empty # 1..(m - 1))]]
    ELSE \* loop, sec, assoc: included as long as any body node is included.  For the scoped node
         \* the class documents both rules (it is a MaskedTransformer: included when switched on);
         \* they disagree on a switched-on scoped node whose body vanishes => ambiguous
         [r |-> IF Len(c.bs[1]) = 0 THEN <<>> ELSE <<[n EXCEPT !.b = c.bs]>>,
          st |-> [c.st EXCEPT !.amb = @ \/ (Scoped(n) /\ s1.active /\ Len(c.bs[1]) = 0)]]

InitSt(c) == [active |-> c.active, start |-> {c.start[j] : j \in 1..Len(c.start)},
              stop |-> {c.stop[j] : j \in 1..Len(c.stop)}, amb |-> FALSE]
Flags(c) == [ras |-> c.ras, gs |-> c.gs]

(***************************************************************************)
(* Apply: the specified result (a sequence of nodes: what the call returns *)
(* flattened; one node when a kept root node is visited).                  *)
(* c = [cls, tree (sequence; one root node for entry "node"), map, start,  *)
(*      stop, active, ras, gs]                                             *)
(***************************************************************************)
MaskRun(c) == MSeq(c.tree, InitSt(c), c.map, Flags(c), c.cls = "NM")
Apply(c) == CASE c.cls = "T"  -> TSeq(c.tree, c.map)
              [] c.cls = "N"  -> NSeq(c.tree, c.map)
              [] c.cls \in {"M", "NM"} -> MaskRun(c).r

(***************************************************************************)
(* Legal: the inputs on which the documented contract determines the       *)
(* result (soundness preconditions).  Replacement nodes are fresh (share   *)
(* no sub-term with the tree), so that "is the replacement revisited?" -   *)
(* on which the docstrings are silent - cannot matter.                     *)
(***************************************************************************)
\* kept nodes: neither mapped (node key or inside a matched window) nor below a mapped node; a key that
\* is contained in its own one-to-many handle stays in the tree and counts as kept, with its sub-tree
SelfKept(n, M0) == LET i == KeyOf(n, M0) IN
                   i # 0 /\ M0[i].typ = "tuple" /\ \E j \in 1..Len(M0[i].val) : Strip(M0[i].val[j]) = Strip(n)
RECURSIVE NoneMap(_)
NoneMap(M) == IF Len(M) = 0 THEN <<>> ELSE <<[Head(M) EXCEPT !.typ = "none"]>> \o NoneMap(Tail(M))
RECURSIVE KAS(_, _, _), KASlots(_, _, _), KAEach(_, _, _)
KASlots(bs, M, M0) == IF Len(bs) = 0 THEN <<>> ELSE KAS(Head(bs), M, M0) \o KASlots(Tail(bs), M, M0)
KAEach(w, M, M0) == IF Len(w) = 0 THEN <<>>
                    ELSE (IF KeyOf(Head(w), M) # 0 /\ ~SelfKept(Head(w), M0) THEN <<>>
                          ELSE <<Head(w)>> \o KASlots(Head(w).b, M, M0)) \o KAEach(Tail(w), M, M0)
KAS(s, M, M0) == KAEach(AllWin(s, M, 1), M, M0)
KeptAll(c) == KAS(c.tree, NoneMap(c.map), c.map)
Img(n, c) == IF c.cls = "T" THEN TKeep(n, c.map) ELSE NKeep(n, c.map)
\* value semantics corner: a kept node whose rebuilt image EQUALS a key (e.g. removing loop[] from
\* loop[loop[]] leaves loop[]).  Pre-order application is still determined; for the depth-first
\* class the docstring does not say whether the mapper then applies to the rebuilt node.
CollisionFree(c) == LET kept == KeptAll(c)
                        ks   == NodeKeys(c.map) \cup WinElems(c.map)
                    IN  \A x \in 1..Len(kept) : Strip(Img(kept[x], c)) \notin ks
TreeTerms(c) == SubsSeq(c.tree)
AsKeyNode(x) == [k |-> x.k, t |-> x.t, b |-> x.b, o |-> 0]
\* tt = TreeTerms(c), ks = all key terms (node keys and window elements): computed once per case
LegalEntry(e, c, tt, ks) ==
  LET selfBelow == Len(e.key) = 1 /\ ProperSubs(AsKeyNode(e.key[1])) \cap ks # {} IN
  /\ Len(e.key) >= 1
  /\ e.typ \in {"none", "node", "tuple"}
  /\ e.typ = "node" => Len(e.val) = 1
  /\ e.typ = "none" => Len(e.val) = 0
  /\ \A j \in 1..Len(e.key) : e.key[j] \in tt
  /\ \A j \in 1..Len(e.val) :
       LET v  == e.val[j]
           sv == Strip(v) IN
       \* fresh: shares no sub-term with the tree
       \/ Subs(v) \cap tt = {}
       \* the key itself inside its one-to-many handle; further keys may lie below it.  An object that
       \* is updated in place (inplace, or a scoped node without rebuild_scopes) and reached twice would
       \* have its already transformed children transformed again: then the key occurs only once
       \/ /\ e.typ = "tuple" /\ Len(e.key) = 1 /\ sv = e.key[1] /\ c.cls \in {"T", "N"}
          /\ selfBelow => \/ /\ Count(StripSeq(Pre(c.tree)), e.key[1]) <= 1
                             \* ... and once in its own handle: (self, self) reaches the one object twice as well
                             /\ Count(StripSeq(e.val), e.key[1]) <= 1
                          \/ ~c.inplace /\ (c.rs \/ ~HasScoped(<<v>>))
       \* relabel: a fresh-tagged copy of the key with the key's own children
       \/ /\ Len(e.key) = 1 /\ e.typ = "node" /\ Len(e.key[1].b) > 0
          /\ v.k = e.key[1].k /\ sv.b = e.key[1].b /\ sv \notin tt
          /\ (c.cls = "N" \/ (c.cls = "T" /\ ~selfBelow))
       \* wrap: a fresh-tagged one-slot node around the window's own nodes (not revisited by "N")
       \/ /\ Len(e.key) > 1 /\ Len(v.b) = 1 /\ sv.b[1] = e.key /\ sv \notin tt /\ c.cls = "N"
  \* windows: their nodes are not rewritten themselves
  /\ Len(e.key) > 1 =>
       /\ c.cls \in {"T", "N"}
       /\ \A j \in 1..Len(e.key) :
            /\ e.key[j] \notin NodeKeys(c.map)
            /\ ProperSubs(AsKeyNode(e.key[j])) \cap ks = {}

SeqSet(s) == {s[j] : j \in 1..Len(s)}
Legal(c) ==
  LET tt == TreeTerms(c)
      ks == NodeKeys(c.map) \cup WinElems(c.map)
  IN
  /\ \A i, j \in 1..Len(c.map) : i # j => c.map[i].key # c.map[j].key
  /\ \A i \in 1..Len(c.map) : LegalEntry(c.map[i], c, tt, ks)
  \* windows do not compete for nodes
  /\ \A i, j \in WinEntries(c.map) : i # j => SeqSet(c.map[i].key) \cap SeqSet(c.map[j].key) = {}
  \* the entry node of a "node" visit is not a key (no containing tuple to splice into)
  /\ c.entry = "node" => (Len(c.tree) = 1 /\ Strip(c.tree[1]) \notin NodeKeys(c.map))
  /\ c.cls \in {"M", "NM"} =>
        /\ SeqSet(c.start) \cap SeqSet(c.stop) = {}
        /\ ks \cap (SeqSet(c.start) \cup SeqSet(c.stop)) = {}
        /\ ~MaskRun(c).st.amb
  /\ c.cls \in {"T", "N"} => (Len(c.start) = 0 /\ Len(c.stop) = 0)
  /\ c.cls = "N" => CollisionFree(c)

(***************************************************************************)
(* Properties of the contract, stated independently of the recursion above *)
(* (checked on the whole small universe by MC_TreeRewrite).                *)
(***************************************************************************)
RECURSIVE TagsR(_)
TagsR(p) == IF Len(p) = 0 THEN <<>> ELSE <<<<Head(p).k, Head(p).t>>>> \o TagsR(Tail(p))
TagsOf(s) == TagsR(Pre(s))
RECURSIVE SelectSeq2(_, _)
SelectSeq2(s, S) == IF Len(s) = 0 THEN <<>>
                    ELSE (IF Head(s) \in S THEN <<Head(s)>> ELSE <<>>) \o SelectSeq2(Tail(s), S)

\* nodes that are neither mapped nor below a mapped node (pre-order), for node keys only
RECURSIVE KeptSeq(_, _), KeptSlots(_, _)
KeptSlots(bs, M) == IF Len(bs) = 0 THEN <<>> ELSE KeptSeq(Head(bs), M) \o KeptSlots(Tail(bs), M)
KeptSeq(s, M) == IF Len(s) = 0 THEN <<>>
                 ELSE (IF KeyOf(Head(s), M) # 0 THEN <<>> ELSE <<Head(s)>> \o KeptSlots(Head(s).b, M)) \o KeptSeq(Tail(s), M)

PlainMap(c) == \A i \in 1..Len(c.map) :
                  /\ Len(c.map[i].key) = 1
                  /\ \A j \in 1..Len(c.map[i].val) : Subs(c.map[i].val[j]) \cap TreeTerms(c) = {}

\* mapped nodes reached by the traversal (pre-order, not looking below a mapped node)
RECURSIVE VisitedSeq(_, _), VisitedSlots(_, _)
VisitedSlots(bs, M) == IF Len(bs) = 0 THEN <<>> ELSE VisitedSeq(Head(bs), M) \o VisitedSlots(Tail(bs), M)
VisitedSeq(s, M) == IF Len(s) = 0 THEN <<>>
                    ELSE (IF KeyOf(Head(s), M) # 0 THEN <<KeyOf(Head(s), M)>> ELSE VisitedSlots(Head(s).b, M)) \o VisitedSeq(Tail(s), M)
\* ExactlyMapped: no mapped term survives, and replacement material appears exactly once per
\* visited occurrence of its key (nothing is replaced twice, nothing is skipped)
ExactlyMapped(c) ==
  (c.cls \in {"T", "N"} /\ Legal(c) /\ PlainMap(c)) =>
     LET R   == StripSeq(Pre(Apply(c)))
         vis == VisitedSeq(c.tree, c.map)
         new == UNION {SubsSeq(c.map[i].val) : i \in 1..Len(c.map)}
         RECURSIVE Expected(_, _)
         Expected(v, x) == IF x = 0 THEN 0 ELSE Count(StripSeq(Pre(c.map[vis[x]].val)), v) + Expected(v, x - 1)
     IN
     /\ CollisionFree(c) => {R[j] : j \in 1..Len(R)} \cap NodeKeys(c.map) = {}
     /\ \A v \in new :
          Count(R, v) = Expected(v, Len(vis))
\* OthersKeepContentAndOrder: the kept nodes appear in the result with their content, in order,
\* and everything else in the result is replacement material
OthersKeep(c) ==
  (c.cls \in {"T", "N"} /\ Legal(c) /\ PlainMap(c)) =>
     LET R    == Apply(c)
         orig == {<<x.k, x.t>> : x \in TreeTerms(c)}
     IN  SelectSeq2(TagsOf(R), orig) = TagsR(KeptSeq(c.tree, c.map))
\* the two traversal orders agree whenever both are determined
NestedAgrees(c) ==
  (c.cls = "T" /\ Legal(c) /\ Legal([c EXCEPT !.cls = "N"])) => StripSeq(TSeq(c.tree, c.map)) = StripSeq(NSeq(c.tree, c.map))
IdentityMap(c) == (Len(c.map) = 0 /\ c.cls \in {"T", "N"}) => Apply(c) = c.tree
\* a mask that is switched on and never off is no mask
MaskAllOn(c) ==
  (c.cls = "M" /\ c.active /\ Len(c.stop) = 0 /\ Legal(c) /\ Legal([c EXCEPT !.cls = "T"])) =>
     StripSeq(Apply(c)) = StripSeq(TSeq(c.tree, c.map))
\* both masked variants select the same leaves, in order; the nested one only adds parents
LeafTags(s) == SelectSeq2(TagsOf(s), {<<k, x.t>> : k \in {"leaf", "asg"}, x \in SubsSeq(s)})
MaskSameLeaves(c) ==
  (c.cls = "M" /\ Legal(c) /\ Legal([c EXCEPT !.cls = "NM"])) =>
     LeafTags(Apply(c)) = LeafTags(Apply([c EXCEPT !.cls = "NM"]))
\* masking never invents or reorders nodes
RECURSIVE IsSubseq(_, _)
IsSubseq(a, b) == IF Len(a) = 0 THEN TRUE ELSE IF Len(b) = 0 THEN FALSE
                  ELSE IF Head(a) = Head(b) THEN IsSubseq(Tail(a), Tail(b)) ELSE IsSubseq(a, Tail(b))
MaskSubseq(c) ==
  (c.cls \in {"M", "NM"} /\ Legal(c) /\ Len(c.map) = 0) => IsSubseq(TagsOf(Apply(c)), TagsOf(c.tree))

(***************************************************************************)
(* Acceptance of one observed run (used by Trace_TreeRewrite).             *)
(* obs = [outcome, result, orig, rebuilt] ; c additionally has inplace, rs *)
(* rebuilt entries: [ko: object id of the key (0: not an object of the tree),*)
(*   kt: the key's own term, v: pre-order index of the value in the result]*)
(***************************************************************************)
\* structural equality including object identity where the expectation specifies one (o >= 0)
RECURSIVE Match(_, _)
MatchSeq(es, gs) == Len(es) = Len(gs) /\ \A j \in 1..Len(es) : Match(es[j], gs[j])
Match(e, g) == /\ e.k = g.k /\ e.t = g.t /\ Len(e.b) = Len(g.b)
               /\ (e.o < 0 \/ e.o = g.o)
               /\ \A i \in 1..Len(e.b) : MatchSeq(e.b[i], g.b[i])
\* "Applying a Transformer rebuilds all nodes by default, which means individual nodes from the
\* original IR are no longer found in the new tree": without inplace, the image of a node of the
\* original is a new object (g.o = 0), except scoped nodes unless rebuild_scopes is requested.
\* Replacement material (o = -1) is the caller's business.
RECURSIVE NoShare(_, _, _)
NoShareSeq(es, gs, rs) == Len(es) = Len(gs) /\ \A j \in 1..Len(es) : NoShare(es[j], gs[j], rs)
NoShare(e, g, rs) == /\ (e.o = -1 \/ g.o = 0 \/ (Scoped(e) /\ ~rs))
                     /\ Len(e.b) = Len(g.b) /\ \A i \in 1..Len(e.b) : NoShareSeq(e.b[i], g.b[i], rs)
\* ... but not looking below scoped nodes (they are documented to be updated in place unless
\* rebuild_scopes is requested)
RECURSIVE MatchModScoped(_, _)
MatchModScopedSeq(es, gs) == Len(es) = Len(gs) /\ \A j \in 1..Len(es) : MatchModScoped(es[j], gs[j])
MatchModScoped(e, g) == /\ e.k = g.k /\ e.t = g.t /\ e.o = g.o
                        /\ (Scoped(e) \/ (Len(e.b) = Len(g.b) /\ \A i \in 1..Len(e.b) : MatchModScopedSeq(e.b[i], g.b[i])))

\* first point where two stripped sequences differ (diagnostic string for the verdict)
RECURSIVE DiffSeq(_, _), DiffNode(_, _)
DiffNode(e, g) == IF e.k # g.k THEN "kind:" \o e.k \o "/" \o g.k
                  ELSE IF e.t # g.t THEN "tag@" \o e.k
                  ELSE IF Len(e.b) # Len(g.b) THEN "slots@" \o e.k
                  ELSE LET bad == {i \in 1..Len(e.b) : StripSeq(e.b[i]) # StripSeq(g.b[i])} IN
                       IF bad = {} THEN "same" ELSE DiffSeq(e.b[CHOOSE i \in bad : \A j \in bad : i <= j], g.b[CHOOSE i \in bad : \A j \in bad : i <= j])
DiffSeq(es, gs) ==
  LET n == IF Len(es) < Len(gs) THEN Len(es) ELSE Len(gs)
      bad == {j \in 1..n : Strip(es[j]) # Strip(gs[j])}
  IN  IF bad = {} THEN (IF Len(es) < Len(gs) THEN "extra:" \o gs[Len(es) + 1].k
                        ELSE IF Len(es) > Len(gs) THEN "missing:" \o es[Len(gs) + 1].k ELSE "same")
      ELSE LET j == CHOOSE x \in bad : \A y \in bad : x <= y IN
           \* a pure insertion/deletion shows up as a shifted element: report the length change
           IF Len(es) # Len(gs) /\ es[j].k # gs[j].k THEN
               (IF Len(es) < Len(gs) THEN "extra:" \o gs[j].k ELSE "missing:" \o es[j].k)
           ELSE DiffNode(es[j], gs[j])

\* RebuiltCoversOriginal: for every kept node n of the original there is a record whose key is
\* (equal to) n and whose value is a node of the result that is the image of n.
\* kept nodes w.r.t. node keys and windows (windows are matched per sibling sequence)
RebuiltOK(c, obs) ==
  LET PT == Pre(c.tree)
      PR == Pre(obs.result)
      OrigOf(oid) == LET S == {x \in 1..Len(PT) : PT[x].o = oid} IN
                     IF S = {} THEN [k |-> "?", t |-> "?", b |-> <<>>] ELSE Strip(PT[CHOOSE x \in S : TRUE])
      kept == KeptAll(c)
  IN  \A x \in 1..Len(kept) :
         LET n == kept[x] IN
         (Scoped(n) /\ ~c.rs) \/
         \E y \in 1..Len(obs.rebuilt) :
             LET e == obs.rebuilt[y] IN
             /\ e.v >= 1 /\ e.v <= Len(PR)
             /\ (OrigOf(e.ko) = Strip(n) \/ (e.ko = 0 /\ e.kt = Strip(n)))
             /\ Strip(PR[e.v]) = Strip(Img(n, c))

\* the returned structure is not an IR tree at all: a body contains a nested tuple, None, an
\* expression, or the tree contains itself
NodeKinds == {"leaf", "asg", "loop", "sec", "assoc", "cond", "multi"}
Malformed(res) == LET p   == Pre(res)
                      bad == {j \in 1..Len(p) : p[j].k \notin NodeKinds}
                  IN  IF bad = {} THEN "" ELSE p[CHOOSE j \in bad : \A i \in bad : j <= i].k

\* Verdict: "ok", "skip:illegal" or the name of the violated clause
Verdict(c, obs) ==
  IF ~Legal(c) THEN "skip:illegal"
  ELSE LET exp == Apply(c) IN
  IF obs.outcome # "ok" THEN "raised:" \o obs.outcome
  ELSE IF Malformed(obs.result) # "" THEN "result-malformed:" \o Malformed(obs.result)
  ELSE IF StripSeq(obs.result) # StripSeq(exp) THEN "result-tree:" \o DiffSeq(exp, obs.result)
  ELSE IF c.inplace /\ ~MatchSeq(exp, obs.result) THEN "inplace-identity"
  ELSE IF ~c.inplace /\ ~NoShareSeq(exp, obs.result, c.rs) THEN "result-shares-original"
  ELSE IF ~c.inplace /\ (c.rs \/ ~HasScoped(c.tree)) /\ ~MatchSeq(c.tree, obs.orig) THEN "original-modified"
  ELSE IF ~c.inplace /\ ~MatchModScopedSeq(c.tree, obs.orig) THEN "original-modified-outside-scopes"
  ELSE IF ~c.inplace /\ c.cls \in {"T", "N"} /\ ~RebuiltOK(c, obs) THEN "rebuilt-record"
  ELSE "ok"
=============================================================================
