SPECIFICATION Spec
CONSTANT MaxLines = 2
INVARIANT AcceptIdeal
INVARIANT AcceptUntouched
INVARIANT IdealClean
INVARIANT Idempotent
INVARIANT RejectInsideStrings
INVARIANT RejectCase
INVARIANT RejectExtraLine
INVARIANT RejectHalfCheck
INVARIANT RejectDroppedLine
CHECK_DEADLOCK FALSE
