SPECIFICATION GSpec
CONSTANT MutDetachForgetsPost = FALSE
CONSTANT MutUnregDropsEnd = FALSE
CONSTANT MutDfaSkipsAttached = FALSE
CONSTANT MaxDepth = 99
CONSTANT MaxStack = 3
CONSTANT InitTrees = {}
CONSTANT GenDepth = 8
CONSTANT Mode = "nest"
CHECK_DEADLOCK FALSE
