---------------------------- MODULE MC_Dataflow ----------------------------
(***************************************************************************)
(* Design-level check of the C26/C27 judgement (DataflowJudge) and of the   *)
(* instrumented machine (FMachineLog), exhaustive over a small universe:    *)
(* every kernel made of NStmt statements drawn from Stmts (7 atoms: scalar  *)
(* copies, an array element store with a computed subscript, an element     *)
(* read, a whole-array store, a call whose dummies have no intent and which *)
(* writes on one path only - each plain, under IF (flag) and in a possibly  *)
(* zero-trip DO) x every input of Inputs.                                   *)
(*  Sound   the clauses never demand more than the coarsest syntactic       *)
(*          analysis provides (RefSets: every name syntactically written /  *)
(*          read below the node; raw = written by earlier siblings and read *)
(*          at or after the point): Misses(log, RefSets) = {}.  A judgement *)
(*          that could flag a sound analysis would be a false-alarm source. *)
(*  Agrees  the instrumented machine computes the same output as FMachine   *)
(*          and its log is balanced.                                        *)
(*  Detects the judgement is not vacuous: against empty sets every run that  *)
(*          writes / reads a variable is flagged, and dropping a name from  *)
(*          the body's defines set is flagged whenever that name is written.*)
(***************************************************************************)
EXTENDS DataflowJudge
CONSTANT NStmt

Vr(n) == [k |-> "var", name |-> n]
Nm(v) == [k |-> "int", v |-> v]
Sum2(a, b) == [k |-> "sum", c |-> <<a, b>>]
El(n, s) == [k |-> "arr", name |-> n, c |-> <<s>>]
Gt(a, b) == [k |-> "cmp", op |-> ">", c |-> <<a, b>>]
Fn(f, args) == [k |-> "call", f |-> f, c |-> args]
Asg(id, l, r) == [s |-> "assign", id |-> id, lhs |-> l, rhs |-> r]
Dcl(n, ty, intent, dims) == [name |-> n, type |-> ty, intent |-> intent, dims |-> dims, init |-> None]

NAtoms == 7
Atom(a, id) == CASE a = 1 -> Asg(id, Vr("a"), Vr("b"))
                 [] a = 2 -> Asg(id, Vr("b"), Sum2(Vr("a"), Nm(1)))
                 [] a = 3 -> Asg(id, Vr("a"), Nm(1))
                 [] a = 4 -> Asg(id, El("c", Fn("mod", <<Vr("n"), Nm(2)>>)), Vr("a"))
                 [] a = 5 -> Asg(id, Vr("b"), El("c", Nm(0)))
                 [] a = 6 -> Asg(id, Vr("c"), Vr("a"))
                 [] a = 7 -> [s |-> "call", id |-> id, name |-> "h", args |-> <<Vr("a"), Vr("b")>>]
NStmts == 3 * NAtoms
\* statement number k at top-level id `id` (a nested atom gets id + 1)
Stmt(k, id) == LET a == ((k - 1) % NAtoms) + 1
                   w == (k - 1) \div NAtoms
               IN CASE w = 0 -> Atom(a, id)
                    [] w = 1 -> [s |-> "if", id |-> id, eids |-> <<>>, conds |-> <<Vr("flag")>>, bodies |-> <<<<Atom(a, id + 1)>>>>, els |-> <<>>]
                    [] w = 2 -> [s |-> "do", id |-> id, var |-> "i", lo |-> Nm(1), hi |-> Vr("n"), st |-> None, body |-> <<Atom(a, id + 1)>>]

HUnit == [name |-> "h", kind |-> "subroutine", args |-> <<"p", "q">>, result |-> "", host |-> "", bid |-> 40,
          decls |-> <<Dcl("p", "int", "none", <<>>), Dcl("q", "int", "none", <<>>)>>,
          body |-> <<[s |-> "if", id |-> 41, eids |-> <<>>, conds |-> <<Gt(Vr("q"), Nm(0))>>,
                      bodies |-> <<<<Asg(42, Vr("p"), Sum2(Vr("q"), Nm(1)))>>>>, els |-> <<>>]>>]
Prog(ks) == [units |-> <<[name |-> "kernel", kind |-> "subroutine", args |-> <<"n", "flag", "a", "b", "c">>, result |-> "", host |-> "", bid |-> 1,
                          decls |-> <<Dcl("n", "int", "in", <<>>), Dcl("flag", "log", "in", <<>>), Dcl("a", "int", "inout", <<>>),
                                      Dcl("b", "int", "inout", <<>>), Dcl("c", "int", "inout", <<<<0, 1>>>>), Dcl("i", "int", "local", <<>>)>>,
                          body |-> TLCEval([j \in 1..NStmt |-> Stmt(ks[j], 2 * j)])], HUnit>>]
MaxId == 42

Inputs == {<<n, f, b>> : n \in 0..2, f \in BOOLEAN, b \in 0..1}
InputOf(t) == [x \in {"n", "flag", "a", "b", "c"} |->
                 CASE x = "n" -> I(t[1]) [] x = "flag" -> L(t[2]) [] x = "a" -> I(1) [] x = "b" -> I(t[3])
                   [] x = "c" -> [t |-> "arr", lb |-> <<0>>, ub |-> <<1>>, data |-> (<<0>> :> I(2)) @@ (<<1>> :> I(3))]]

(* ------------------------------------------------ the coarsest syntactic analysis *)
RECURSIVE VarsOf(_), SynW(_, _), SynR(_, _)
VarsOf(e) == CASE e.k = "var" -> {e.name}
               [] e.k \in {"int", "real", "log", "none"} -> {}
               [] e.k = "arr" -> {e.name} \cup UNION {VarsOf(e.c[i]) : i \in 1..Len(e.c)}
               [] e.k = "range" -> VarsOf(e.lo) \cup VarsOf(e.hi) \cup VarsOf(e.st)
               [] OTHER -> UNION {VarsOf(e.c[i]) : i \in 1..Len(e.c)}
ListW(P, ss) == UNION {SynW(P, ss[i]) : i \in 1..Len(ss)}
ListR(P, ss) == UNION {SynR(P, ss[i]) : i \in 1..Len(ss)}
SynW(P, s) == CASE s.s = "assign" -> {s.lhs.name}
                [] s.s = "call" -> {s.args[i].name : i \in {j \in 1..Len(s.args) : s.args[j].k \in {"var", "arr"}
                                                            /\ Decl(Unit(P, s.name), Unit(P, s.name).args[j]).intent # "in"}}
                [] s.s = "if" -> UNION {ListW(P, s.bodies[i]) : i \in 1..Len(s.bodies)} \cup ListW(P, s.els)
                [] s.s = "do" -> ListW(P, s.body)
                [] OTHER -> {}
SynR(P, s) == CASE s.s = "assign" -> VarsOf(s.rhs) \cup (IF s.lhs.k = "arr" THEN UNION {VarsOf(s.lhs.c[i]) : i \in 1..Len(s.lhs.c)} ELSE {})
                [] s.s = "call" -> UNION {VarsOf(s.args[i]) : i \in 1..Len(s.args)}
                [] s.s = "if" -> UNION {VarsOf(s.conds[i]) : i \in 1..Len(s.conds)} \cup UNION {ListR(P, s.bodies[i]) : i \in 1..Len(s.bodies)} \cup ListR(P, s.els)
                [] s.s = "do" -> VarsOf(s.lo) \cup VarsOf(s.hi) \cup VarsOf(s.st) \cup ListR(P, s.body)
                [] OTHER -> {}

\* <<id, sets>> for every statement of a list and below
RECURSIVE ListSets(_, _, _)
ListSets(P, names, ss) ==
  UNION {LET s == ss[i]
             w == SynW(P, s)
             r == SynR(P, s)
             before == UNION {SynW(P, ss[j]) : j \in 1..(i - 1)}
             after == UNION {SynR(P, ss[j]) : j \in i..Len(ss)}
             own == {<<s.id, [d |-> w, u |-> r, l |-> names, c |-> w \cap r, r |-> before \cap after]>>}
         IN own \cup (CASE s.s = "if" -> UNION {ListSets(P, names, s.bodies[k]) : k \in 1..Len(s.bodies)} \cup ListSets(P, names, s.els)
                        [] s.s = "do" -> ListSets(P, names, s.body)
                        [] OTHER -> {})
         : i \in 1..Len(ss)}
Empty == [d |-> {}, u |-> {}, l |-> {}, c |-> {}, r |-> {}]
RefSets(P) ==
  LET pairs == UNION {LET u == P.units[k] names == DeclNames(u) IN
                      {<<u.bid, [d |-> ListW(P, u.body), u |-> ListR(P, u.body), l |-> names, c |-> {}, r |-> {}]>>}
                      \cup ListSets(P, names, u.body) : k \in 1..Len(P.units)}
  IN TLCEval([i \in 1..MaxId |-> IF \E p \in pairs : p[1] = i THEN (CHOOSE p \in pairs : p[1] = i)[2] ELSE Empty])
EmptySets == [i \in 1..MaxId |-> Empty]

(* ---------------------------------------------------------------- the model *)
VARIABLES ks, inp
Init == /\ ks \in [1..NStmt -> 1..NStmts]
        /\ inp \in Inputs
Next == UNCHANGED <<ks, inp>>
Spec == Init /\ [][Next]_<<ks, inp>>

P0 == Prog(ks)
Agrees == \E r \in {RunL(P0, "kernel", InputOf(inp))} :
            /\ r.ok
            /\ Run(P0, "kernel", InputOf(inp)) = [ok |-> TRUE, why |-> "", out |-> r.out]
            /\ Misses(P0, r.log, RefSets(P0)).fr = <<>>
Sound == Misses(P0, RunL(P0, "kernel", InputOf(inp)).log, RefSets(P0)).bad = {}
Detects ==
  \E r \in {RunL(P0, "kernel", InputOf(inp))} : \E ref \in {RefSets(P0)} : \E bad0 \in {Misses(P0, r.log, EmptySets).bad} :
    LET evs(kind) == {r.log[j] : j \in {i \in 1..Len(r.log) : r.log[i].e = kind /\ r.log[i].d = 0}}
        written == {ev.v : ev \in evs("W")}
    IN /\ written # {} => \E b \in bad0 : b[1] = "D"
       /\ evs("R") # {} => \E b \in bad0 : b[1] = "U"
       /\ \A v \in written :                             \* dropping a written name from the body's defines is noticed
            \E b \in Misses(P0, r.log, [ref EXCEPT ![1].d = @ \ {v}]).bad : b[1] = "D" /\ b[2] = 1 /\ b[3] = v
=============================================================================
