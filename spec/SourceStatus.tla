---------------------------- MODULE SourceStatus ----------------------------
(***************************************************************************)
(* C03: conservative output reproduces unmodified source verbatim.          *)
(*                                                                         *)
(* Every IR node carries a Source: the lines [l0, l1] it was read from and   *)
(* a status (loki.frontend.source.SourceStatus):                            *)
(*   VALID             "the node and its children are unchanged"            *)
(*   INVALID_NODE      interior properties (expressions) changed            *)
(*   INVALID_CHILDREN  properties unchanged, child nodes altered            *)
(*   NONE              the node has no source (it was created by an edit)   *)
(* The conservative backend emits the original text of every VALID node.    *)
(*                                                                         *)
(* A tree is a pre-order sequence of node records                           *)
(*   [par (index of the parent, 0 for the root), kind, st, l0, l1,          *)
(*    oid (index in the ORIGINAL tree of the node whose Source this node    *)
(*         still carries, 0 if none), whole (the recorded text is exactly   *)
(*         the original lines l0..l1)]                                      *)
(* An edit history is summarised by the set of original nodes it touched    *)
(* (replaced, removed or changed in an expression).                         *)
(*                                                                         *)
(* Clauses:                                                                 *)
(*  Unmodified   with an empty history, the output of a unit is the         *)
(*               original text of the unit, line by line.                   *)
(*  ValidSound   (ValidImpliesSubtreeUnchanged) a node that is still VALID  *)
(*               has no touched node in its original subtree.               *)
(*  ValidEmitted (ConservativeEmitsOriginalForValid) the original lines of  *)
(*               the outermost VALID nodes occur in the output as disjoint  *)
(*               blocks in tree order.                                      *)
(*  ChildrenOnly  a node marked INVALID_CHILDREN ("interior node properties  *)
(*               have not changed, but child nodes have been altered") is   *)
(*               not one whose own expressions were changed by the history  *)
(*               (a later edit must be able to upgrade INVALID_CHILDREN to  *)
(*               INVALID_NODE).                                             *)
(*  StaleHeader  the first original line of a node whose own expressions    *)
(*               were changed is not printed again (it occurs in the output *)
(*               at most as often as other nodes of the original carry it). *)
(* The behaviour of the result (it must behave as the edited program) is    *)
(* decided by the reference machine (Trace_FMachine).                       *)
(***************************************************************************)
EXTENDS Naturals, Sequences, FiniteSets, TLC

Pick(S) == CHOOSE x \in S : TRUE

RECURSIVE IsAnc(_, _, _)
\* a is i or an ancestor of i in the tree `nodes`
IsAnc(nodes, a, i) == IF i = 0 THEN FALSE ELSE IF i = a THEN TRUE ELSE IsAnc(nodes, a, nodes[i].par)

\* ---- ValidSound: indices of new-tree nodes that are VALID although a touched node lies in their original subtree
Unsound(onodes, nodes, touched) ==
  {i \in DOMAIN nodes : /\ nodes[i].st = "VALID" /\ nodes[i].oid # 0
                        /\ \E t \in touched : IsAnc(onodes, nodes[i].oid, t)}

RECURSIVE Sorted(_)
Sorted(S) == IF S = {} THEN <<>> ELSE LET m == CHOOSE i \in S : \A j \in S : i <= j IN <<m>> \o Sorted(S \ {m})

\* ---- ValidEmitted
\* outermost VALID nodes (no VALID proper ancestor) whose text is made of whole original lines, in pre-order
RECURSIVE HasValidAnc(_, _)
HasValidAnc(nodes, i) == LET p == nodes[i].par IN IF p = 0 THEN FALSE ELSE nodes[p].st = "VALID" \/ HasValidAnc(nodes, p)
\* smallest q >= p such that out[q .. q+n-1] = block, 0 if none
RECURSIVE Find(_, _, _)
Find(out, block, p) == IF p + Len(block) - 1 > Len(out) THEN 0
                       ELSE IF SubSeq(out, p, p + Len(block) - 1) = block THEN p ELSE Find(out, block, p + 1)
\* Exemption: a node whose lines occur a second time in the original file (`end do`-like statements, `implicit none` of
\* several routines, repeated assignments) is not judged: its place in the output cannot be told from that of its twin,
\* and a missing block would be "found" in the twin's text.
UniqueIn(orig, n) == n.l0 <= n.l1 /\ n.l1 <= Len(orig) /\ Find(orig, SubSeq(orig, n.l0, n.l1), n.l0 + 1) = 0
                     /\ Find(orig, SubSeq(orig, n.l0, n.l1), 1) = n.l0
RECURSIVE Outer(_, _, _, _)
Outer(orig, nodes, i, acc) ==
  IF i > Len(nodes) THEN acc
  ELSE Outer(orig, nodes, i + 1, IF nodes[i].st = "VALID" /\ nodes[i].whole /\ nodes[i].l0 > 0 /\ ~HasValidAnc(nodes, i) /\ UniqueIn(orig, nodes[i])
                                 THEN Append(acc, i) ELSE acc)
\* match the blocks of the nodes idx[k..] from position p of the output; result: the nodes whose block is not found
\* (a block that is not found is skipped, so that one regenerated node does not hide the others)
RECURSIVE Match(_, _, _, _, _, _, _)
Match(orig, nodes, out, idx, k, p, miss) ==
  IF k > Len(idx) THEN miss
  ELSE LET n == nodes[idx[k]] IN
       IF n.l1 > Len(orig) \/ n.l0 > n.l1 THEN Match(orig, nodes, out, idx, k + 1, p, Append(miss, idx[k]))
       ELSE Pick({IF q = 0 THEN Match(orig, nodes, out, idx, k + 1, p, Append(miss, idx[k]))
                  ELSE Match(orig, nodes, out, idx, k + 1, q + (n.l1 - n.l0 + 1), miss) :
                     q \in {Find(out, SubSeq(orig, n.l0, n.l1), p)}})
NotEmitted(orig, nodes, out) == Match(orig, nodes, out, Outer(orig, nodes, 1, <<>>), 1, 1, <<>>)

\* ---- ChildrenOnly: new-tree nodes marked INVALID_CHILDREN whose own expressions were changed
ChildrenOnlyBad(nodes, own) == {i \in DOMAIN nodes : nodes[i].st = "INVALID_CHILDREN" /\ nodes[i].oid # 0 /\ nodes[i].oid \in own}

\* ---- StaleHeader
RECURSIVE Occ(_, _, _, _)
Occ(s, x, i, acc) == IF i > Len(s) THEN acc ELSE Occ(s, x, i + 1, IF s[i] = x THEN acc + 1 ELSE acc)
HeaderOf(orig, n) == orig[n.l0]
Heads(orig, onodes, own) == {t \in own : onodes[t].whole /\ onodes[t].l0 > 0 /\ onodes[t].l0 <= Len(orig)}
Stale(orig, onodes, own, out) ==
  {t \in Heads(orig, onodes, own) :
      LET h == HeaderOf(orig, onodes[t]) IN
      Occ(out, h, 1, 0) + Cardinality({u \in Heads(orig, onodes, own) : HeaderOf(orig, onodes[u]) = h}) > Occ(orig, h, 1, 0)}

\* ---- Unmodified: first line at which the output of a unit differs from its original lines (0: equal)
RECURSIVE DiffFrom(_, _, _, _)
DiffFrom(a, b, k, n) == IF k > n THEN n + 1 ELSE IF a[k] # b[k] THEN k ELSE DiffFrom(a, b, k + 1, n)
FirstDiff(a, b) == IF a = b THEN 0 ELSE DiffFrom(a, b, 1, IF Len(a) < Len(b) THEN Len(a) ELSE Len(b))

\* c = [orig (lines of the file), onodes, nodes, touched (sequence of original node indices), own (those of them whose own
\*      expressions were changed), out (lines), l0, l1 (the lines of the emitted unit in the file)].
\* Findings: <<clause, position>> (position: index in `nodes`; for stale-header the index in `onodes`).
Findings(c) ==
  LET tset == {c.touched[k] : k \in DOMAIN c.touched}
      oset == {c.own[k] : k \in DOMAIN c.own} IN
  (IF tset = {} /\ c.l0 > 0
   THEN (IF c.l1 > Len(c.orig) \/ c.l1 < c.l0 THEN <<<<"unmodified", 0>>>>       \* the recorded span is not inside the file
         ELSE Pick({IF d = 0 THEN <<>> ELSE <<<<"unmodified", d>>>> : d \in {FirstDiff(SubSeq(c.orig, c.l0, c.l1), c.out)}}))
   ELSE <<>>)
  \o Pick({[k \in DOMAIN us |-> <<"valid-sound", us[k]>>] : us \in {Sorted(Unsound(c.onodes, c.nodes, tset))}})
  \o Pick({[k \in DOMAIN m |-> <<"valid-emitted", m[k]>>] : m \in {NotEmitted(c.orig, c.nodes, c.out)}})
  \o Pick({[k \in DOMAIN b |-> <<"children-only", b[k]>>] : b \in {Sorted(ChildrenOnlyBad(c.nodes, oset))}})
  \o Pick({[k \in DOMAIN h |-> <<"stale-header", h[k]>>] : h \in {Sorted(Stale(c.orig, c.onodes, oset, c.out))}})
=============================================================================
