---------------------------- MODULE Trace_Finders ----------------------------
(* Batch validation of recorded finder results (C15).  One case = one exported IR forest      *)
(* (c.T, by the independent exporter) plus the results of the real finders on the same        *)
(* objects (c.queries, results projected to node ids / expression object ids).  Every query   *)
(* is judged by Finders!QueryOK; the verdict names the first rejected query.                  *)
EXTENDS Finders, Json, IOUtils

Cases == JsonDeserialize(IOEnv.CASES)

VARIABLE tid
Init_ == tid = 1
\* rejected queries of a case: "<index>=<diagnosis>" of the first two, and their number
RejectedSet(c) == {i \in 1..Len(c.queries) : ~QueryOK(c.T, c.queries[i])}
Show(c, i) == ToString(i) \o "=" \o Diag(c.T, c.queries[i])
Next_ ==
  /\ tid <= Len(Cases)
  /\ LET c   == Cases[tid]
         bad == RejectedSet(c)
         i1  == MinOf(bad)
     IN  PrintT(<<"VERDICT", c.id, bad = {},
                  IF bad = {} THEN "ok"
                  ELSE IF Cardinality(bad) = 1 THEN Show(c, i1)
                  ELSE Show(c, i1) \o ";" \o Show(c, MinOf(bad \ {i1})),
                  Cardinality(bad)>>)
  /\ tid' = tid + 1
TraceSpec == Init_ /\ [][Next_]_tid
=============================================================================
