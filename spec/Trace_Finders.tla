---------------------------- MODULE Trace_Finders ----------------------------
(* Batch validation of recorded finder results (C15).  One case = one exported IR forest      *)
(* (c.T, by the independent exporter) plus the results of the real finders on the same        *)
(* objects (c.queries, results projected to node ids / expression object ids).  Every query   *)
(* is judged by Finders!QueryOK; the verdict names the first rejected query.                  *)
EXTENDS Finders, Json, IOUtils

Cases == JsonDeserialize(IOEnv.CASES)

VARIABLE tid
Init_ == tid = 1
Next_ ==
  /\ tid <= Len(Cases)
  /\ LET c   == Cases[tid]
         bad == {i \in 1..Len(c.queries) : ~QueryOK(c.T, c.queries[i])}
         fst == IF bad = {} THEN 0 ELSE CHOOSE i \in bad : \A j \in bad : i <= j
     IN  PrintT(<<"VERDICT", c.id, bad = {}, IF bad = {} THEN "ok" ELSE c.queries[fst].label, fst>>)
  /\ tid' = tid + 1
TraceSpec == Init_ /\ [][Next_]_tid
=============================================================================
