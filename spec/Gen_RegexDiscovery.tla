------------------------- MODULE Gen_RegexDiscovery -------------------------
(* Case generator for C19 (spec -> code direction): prints every abstract file of the finite *)
(* universe SmallFiles as JSON; the harness renders them to Fortran under layout variations  *)
(* and drives the real REGEX frontend with them.                                             *)
EXTENDS RegexDiscovery, Json
GInit == /\ InitOver({CHOOSE f \in SmallFiles : TRUE})
         /\ \A f \in SmallFiles : PrintT(<<"FILE", ToJson(f)>>)
GNext == UNCHANGED rdvars
GSpec == GInit /\ [][GNext]_rdvars
=============================================================================
