---------------------------- MODULE MC_SchedProcess ----------------------------
(* Exhaustive design check of SchedProcess: all acyclic item graphs on N items (edges only from   *)
(* lower to higher index), every assignment of kinds {proc, mod}, ignored flags and of items to   *)
(* two files (first item in f1: symmetry) that keeps the induced file graph acyclic, every manifest. *)
(* Constants: N items, Kinds the kinds items may have, MaxIgn the maximal number of ignored items. *)
EXTENDS SchedProcess
CONSTANTS N, Kinds, MaxIgn
Names == [i \in 1..4 |-> <<"a", "b", "c", "d">>[i]]
FwdPairs == {<<i, j>> \in (1..N) \X (1..N) : i < j}
Manifests == [filter : {{"proc"}, {"mod"}, {"proc", "mod"}}, reverse : BOOLEAN, filegraph : BOOLEAN, procign : BOOLEAN]

RECURSIVE Acyc(_)
Acyc(E) == IF E = {} THEN TRUE
           ELSE LET srcs == {e[1] : e \in E}
                    E2 == {e \in E : e[2] \in srcs}
                IN IF E2 = E THEN FALSE ELSE Acyc(E2)

MkGraph(R, kinds, ign, files) ==
  [nodes |-> {[name |-> Names[i], kind |-> kinds[i], ignored |-> ign[i], file |-> files[i]] : i \in 1..N},
   edges |-> {<<Names[e[1]], Names[e[2]]>> : e \in R}]

MCInit ==
  /\ \E R \in SUBSET FwdPairs, kinds \in [1..N -> Kinds], ign \in {f \in [1..N -> BOOLEAN] : Cardinality({i \in 1..N : f[i]}) <= MaxIgn}, files \in {f \in [1..N -> {"f1", "f2"}] : f[1] = "f1"} :
       /\ G = MkGraph(R, kinds, ign, files)
       /\ Acyc({<<files[e[1]], files[e[2]]>> : e \in {d \in R : files[d[1]] # files[d[2]]}})
  /\ M \in Manifests
  /\ vseq = <<>>
MCSpec == MCInit /\ [][SNext]_svars
=============================================================================
