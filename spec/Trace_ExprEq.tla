---------------------------- MODULE Trace_ExprEq ----------------------------
(* Validation of the relation recorded from the real Loki nodes (code -> spec) for C11.            *)
(*   IOEnv.UNIVERSE : JSON file [nodes |-> descriptors in the order the harness built them,       *)
(*                    eq |-> matrix (1: `x == y` is true, 0: false, 2: the comparison raised),     *)
(*                    hash |-> class index of hash(x) (equal hash values <-> equal index, 0: hash() raised)] *)
(*   IOEnv.CASES    : JSON array of [id, x, law]: evaluate one law on row x against every y.       *)
(* Verdict: <<"VERDICT", id, ok, "<law>:<first violating y>:<number of violating y>", x>>.         *)
EXTENDS ExprEq, Json, IOUtils

R     == JsonDeserialize(IOEnv.UNIVERSE)
Cases == JsonDeserialize(IOEnv.CASES)
N     == Len(R.nodes)

\* the recorded relation must be over exactly the universe the specification describes (else: machinery error)
ASSUME RecordedUniverseIsSpecUniverse ==
  /\ {R.nodes[i] : i \in 1..N} = Universe /\ N = Cardinality(Universe)
  /\ Len(R.eq) = N /\ Len(R.hash) = N /\ \A i \in 1..N : Len(R.eq[i]) = N

VARIABLE tid
Init_ == tid = 1
Next_ ==
  /\ tid <= Len(Cases)
  /\ LET c == Cases[tid]
         viol == Violations(R, c.law, c.x)
     IN  IF viol = {}
         THEN PrintT(<<"VERDICT", c.id, TRUE, "ok", 0>>)
         ELSE LET y == CHOOSE y \in viol : \A z \in viol : y <= z
              IN  PrintT(<<"VERDICT", c.id, FALSE, c.law \o ":" \o ToString(y) \o ":" \o ToString(Cardinality(viol)), c.x>>)
  /\ tid' = tid + 1
TraceSpec == Init_ /\ [][Next_]_tid
=============================================================================
