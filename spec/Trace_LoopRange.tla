--------------------------- MODULE Trace_LoopRange ---------------------------
(* C10 trace validation.  A case records, for one loop range (start, stop, step; step = 0 means *)
(* "no step given"), what the helpers returned:                                                 *)
(*   haspy / pyrange : list(get_pyrange(range))  (literal bounds only)                          *)
(*   numit, nstart, nstop : trees of num_iterations and of normalized.start / .stop             *)
(*   itnum, itidx : trees of iteration_number(a, range), iteration_index(a, range)              *)
(* Trees may mention b (= start) and c (= stop) when the bounds are symbolic, and a.            *)
EXTENDS LoopRange, Json, IOUtils
Cases == JsonDeserialize(IOEnv.CASES)

Env(c, va) == [n \in VarNames |-> I(IF n = "a" THEN va ELSE IF n = "b" THEN c.start ELSE c.stop)]
IsInt(v, n) == v.t = "int" /\ v.v = n
\* integral value irrespective of representation (num_iterations may be built with a quotient)
HasValue(v, n) == ~IsErr(v) /\ IsNum(v) /\ Num(v) = n * Den(v)

Judge(c) ==
  LET step == IF c.step = 0 THEN 1 ELSE c.step
      LL == DoSeq(c.start, c.stop, step)
      n == Len(LL)
  IN
  IF c.haspy /\ c.pyrange # LL THEN <<FALSE, "get_pyrange-differs-from-DO-sequence", n>>
  ELSE IF n = 0 THEN <<TRUE, IF c.haspy THEN "ok-empty" ELSE "vacuous-empty", 0>>
  ELSE IF ~HasValue(Eval(c.numit, Env(c, 0)), n) THEN <<FALSE, "num_iterations", n>>
  ELSE IF ~HasValue(Eval(c.nstart, Env(c, 0)), 1) \/ ~HasValue(Eval(c.nstop, Env(c, 0)), n) THEN <<FALSE, "normalized", n>>
  ELSE IF \E k \in 1..n : ~HasValue(Eval(c.itnum, Env(c, LL[k])), k) THEN <<FALSE, "iteration_number", n>>
  ELSE IF \E k \in 1..n : ~HasValue(Eval(c.itidx, Env(c, k)), LL[k]) THEN <<FALSE, "iteration_index", n>>
  ELSE <<TRUE, "ok", n>>

VARIABLE tid
Init == tid = 1
Next == /\ tid <= Len(Cases)
        /\ LET c == Cases[tid] j == Judge(c) IN PrintT(<<"VERDICT", c.id, j[1], j[2], j[3]>>)
        /\ tid' = tid + 1
Spec == Init /\ [][Next]_tid
=============================================================================
