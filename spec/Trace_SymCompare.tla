--------------------------- MODULE Trace_SymCompare ---------------------------
(* C09: a recorded call symbolic_op(a, op, b) returned `res` in {"true", "false", "raised"}.   *)
(* Accepted iff the helper raised (undecided), or the definite answer equals the value of       *)
(* `a op b` under EVERY sampled integer valuation on which both sides are defined.              *)
EXTENDS FParse, Json, IOUtils, SequencesExt
Cases == JsonDeserialize(IOEnv.CASES)
IntEnvSeq == SetToSeq(IntEnvs)
RealEnvSeq == SetToSeq(RealEnvs)   \* only used to classify a rejected answer (exact-division reading)
EnvStr(env) == "a=" \o ToString(Image(env["a"])) \o ",b=" \o ToString(Image(env["b"])) \o ",c=" \o ToString(Image(env["c"]))

RECURSIVE Scan(_, _, _, _, _, _, _)
Scan(envs, a, op, b, want, i, n) ==
  IF i > Len(envs) THEN <<TRUE, "ok", n>>
  ELSE LET env == envs[i]
           va == Eval(a, env)
           vb == Eval(b, env)
       IN IF IsErr(va) \/ IsErr(vb) THEN Scan(envs, a, op, b, want, i + 1, n)
          ELSE IF CmpV(op, va, vb).v = want THEN Scan(envs, a, op, b, want, i + 1, n + 1)
          ELSE <<FALSE, "definite-answer-wrong:" \o EnvStr(env) \o ":lhs=" \o ToString(Image(va)) \o ":rhs=" \o ToString(Image(vb)), n>>

Judge(c) == IF c.res = "raised" THEN <<TRUE, "raised", 0>>
            ELSE Scan(IF c.typing = "int" THEN IntEnvSeq ELSE RealEnvSeq, c.a, c.op, c.b, c.res = "true", 1, 0)
VARIABLE tid
Init == tid = 1
Next == /\ tid <= Len(Cases)
        /\ LET c == Cases[tid] j == Judge(c) IN PrintT(<<"VERDICT", c.id, j[1], j[2], j[3]>>)
        /\ tid' = tid + 1
Spec == Init /\ [][Next]_tid
=============================================================================
