---------------------------- MODULE Trace_SchedCase ----------------------------
(* Trace validation for C23.  Two kinds of cases (field `kind`):                                 *)
(*  "perm"  b, p : projections (SchedCase part 1) of the batch run on the all-lower-case         *)
(*          rendering and on a rendering with some name occurrence classes in another case;      *)
(*          accepted iff SchedCase!Compare finds no difference after folding.                    *)
(*  "law"   events : a history of collection events (SchedCase part 2) replayed on a real        *)
(*          container of Item objects, each with the observed result `ret`;                       *)
(*          accepted iff every result equals SchedCase!ApplyC's.                                  *)
EXTENDS SchedCase, Json, IOUtils

Cases == JsonDeserialize(IOEnv.CASES)
VARIABLE tid

RECURSIVE Replay(_, _, _)
Replay(S, es, k) ==
  IF k > Len(es) THEN <<"ok", 0>>
  ELSE LET r == ApplyC(S, es[k])
       IN IF r.ret # "unspecified" /\ r.ret # es[k].ret
          THEN <<"law:" \o es[k].op \o ":exp=" \o r.ret \o ":got=" \o es[k].ret, k>>
          ELSE Replay(r.st, es, k + 1)

Verdict(c) == IF c.kind = "perm" THEN Compare(c.b, c.p) ELSE Replay({}, c.events, 1)

Init_ == tid = 1
Next_ ==
  /\ tid <= Len(Cases)
  /\ LET c == Cases[tid]
         v == Verdict(c)
     IN PrintT(<<"VERDICT", c.id, v[1] \in {"ok", "base-raised"}, v[1], v[2]>>)
  /\ tid' = tid + 1
TraceSpec == Init_ /\ [][Next_]_tid
=============================================================================
