SPECIFICATION MCSpec
CONSTANT HashOf <- HashRaw
CONSTANT MaxDepth = 8
INVARIANT ReturnsAgree
INVARIANT Refines
CHECK_DEADLOCK FALSE
