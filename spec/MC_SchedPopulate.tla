---------------------------- MODULE MC_SchedPopulate ----------------------------
(* Design-level exhaustive check of the population algorithm against PrunedClosure over the       *)
(* small-scope universe of SchedUniverse: NP = 3 procedures, every module assignment up to        *)
(* symmetry, call relations incl. cycles and self recursion, import styles, the configuration     *)
(* lattice (21 pruning options x 4 seed options).                                                 *)
(*   Tier "quick":    relations over the forward pairs + self recursion (16 per assignment),       *)
(*                    each pruning option with one rotating (style, var import, seed) combination *)
(*   Tier "thorough": all 128 relations, each pruning option with two rotating combinations       *)
(* The project is picked in three model-only steps so that TLC's workers share the enumeration.  *)
EXTENDS SchedPopulate, SchedUniverse
CONSTANTS NP, Tier
VARIABLE sel
mvars == <<P, C, tgt, order, edges, queue, ign, pc, sel>>

StyleSeq == <<"only_r", "unq_m", "only_m", "unq_r">>
Rels == IF Tier = "quick"
        THEN SUBSET ({<<i, j>> \in (1..NP) \X (1..NP) : i < j} \cup {<<2, 2>>})
        ELSE SUBSET Pairs(NP)
\* <<style, var import, seed option, prune option, generic interface>>
Combo(po, k) == <<StyleSeq[((po + k) % 4) + 1], (po + k) % 2 = 0, ((po + 2 * k) % 4) + 1, po, (po + k) % 3 = 0>>
Combos == {Combo(po, k) : po \in 1..NPruneOpts, k \in (IF Tier = "quick" THEN {0} ELSE 0..1)}

MCInit == /\ P = <<>> /\ C = <<>> /\ tgt = <<>> /\ order = <<>> /\ edges = {} /\ queue = <<>> /\ ign = <<>>
          /\ pc = "pick1" /\ sel = <<>>

Pick1 == /\ pc = "pick1" /\ \E f \in Assigns(NP) : sel' = <<f>>
         /\ pc' = "pick2" /\ UNCHANGED <<P, C, tgt, order, edges, queue, ign>>
Pick2 == /\ pc = "pick2" /\ \E R \in Rels : sel' = <<sel[1], R>>
         /\ pc' = "pick3" /\ UNCHANGED <<P, C, tgt, order, edges, queue, ign>>
Pick3 == /\ pc = "pick3"
         /\ \E cb \in Combos :
               /\ P' = MkProjectI(NP, sel[1], sel[2], cb[1], cb[2], "sep", cb[5])
               /\ LegalProject(P')
               /\ C' = ConfOf(P', cb[3], cb[4])
               /\ LegalConfig(P', C')
               /\ tgt' = PrunedClosure(P', C')
         /\ pc' = "seed" /\ sel' = <<>> /\ UNCHANGED <<order, edges, queue, ign>>

MSeed == Seed /\ UNCHANGED sel
MPopChild == PopChild /\ UNCHANGED sel
MCNext == Pick1 \/ Pick2 \/ Pick3 \/ MSeed \/ MPopChild
MCSpec == MCInit /\ [][MCNext]_mvars

\* Known deviation of the algorithm from the declarative rule (kept out of the design invariant, but NOT
\* out of the conformance check): a procedure that calls itself and whose own ignore list matches
\* itself overwrites its own flag.
SelfIgnoring(x) == x.kind = "proc" /\ x.local \in Range(ProcRecOf(P, x).calls) /\ IgnoreHit(P, C, x, x)
FlagsJustifiedMC ==
  Terminated => \A x \in Range(order) :
     \/ ign[x] \in tgt.poss[x]
     \/ \E y \in Range(order) : SelfIgnoring(y) /\ (y = x \/ x \in ReachFrom(edges, {y}))
=============================================================================
