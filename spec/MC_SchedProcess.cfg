SPECIFICATION MCSpec
CONSTANT N = 3
CONSTANT Kinds = {"proc", "mod"}
CONSTANT MaxIgn = 1
INVARIANT ExactlyOnce
INVARIANT OnlySelected
INVARIANT DepOrder
INVARIANT NoEarly
INVARIANT Progress
CHECK_DEADLOCK FALSE
