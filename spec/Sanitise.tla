------------------------------ MODULE Sanitise ------------------------------
(***************************************************************************)
(* C05: the frontend workarounds that rewrite source text before parsing   *)
(* (preprocessor-macro tokens, IBM @PROCESS directives, CONVERT= and       *)
(* NEWUNIT= in OPEN) change only the constructs they target and restore    *)
(* them afterwards.  String literals, comments, identifiers and directive  *)
(* lines that merely contain such text keep their exact content and the    *)
(* program still parses.                                                   *)
(*                                                                         *)
(* A source is a sequence of lines; a line is [regs, specs]:               *)
(*   regs  : lexical regions [k, t]                                        *)
(*            k = "code"  plain statement text t                           *)
(*                "sq"    '...' string literal with value t                *)
(*                "dq"    "..." string literal with value t                *)
(*                "sqc"   '...' string literal with value t, written with  *)
(*                        a continuation-line break inside the character   *)
(*                        context (after its 5th character)                *)
(*                "cmt"   comment t (full line when it is the only region, *)
(*                        inline otherwise), t includes the `!`            *)
(*                "cpp"   preprocessor directive line t                    *)
(*                "id"    identifier t (inside code)                       *)
(*                "cont"  continuation-line break                          *)
(*                "tgt"   a targeted construct in code position (macro     *)
(*                        token / @PROCESS line): its representation after *)
(*                        parsing is NOT specified (documented: replaced   *)
(*                        by 0 / a string constant / dropped)              *)
(*   specs : for OPEN statements the specifier list << <<key, value>> >>   *)
(*           (key folded to lower case, "unit" for the positional unit;    *)
(*           value = exact text), <<>> for other lines.                    *)
(* What may change: only "tgt" regions.  CONVERT=/NEWUNIT= specifiers are  *)
(* targeted too but must be restored: they are ordinary members of specs.  *)
(***************************************************************************)
EXTENDS Naturals, Sequences, FiniteSets, TLC

R(k, t) == [k |-> k, t |-> t]
Ln(regs) == [regs |-> regs, specs |-> <<>>]
Open(regs, specs) == [regs |-> regs, specs |-> specs]

RECURSIVE Flat(_)
Flat(lines) == IF lines = <<>> THEN <<>> ELSE Head(lines).regs \o Flat(Tail(lines))

Texts(regs, kinds) == LET s == SelectSeq(regs, LAMBDA r : r.k \in kinds) IN [i \in DOMAIN s |-> s[i].t]

(* ---- the expected observables: functions of the abstract source only ---- *)
Strings(src)    == Texts(Flat(src), {"sq", "dq", "sqc"})      \* values of all string literals, in order
Comments(src)   == Texts(Flat(src), {"cmt"})           \* all comments, in order
Directives(src) == Texts(Flat(src), {"cpp"})
Idents(src)     == {r.t : r \in {Flat(src)[i] : i \in DOMAIN Flat(src)} \cap {x \in {Flat(src)[i] : i \in DOMAIN Flat(src)} : x.k = "id"}}
Opens(src)      == LET s == SelectSeq(src, LAMBDA l : l.specs # <<>>) IN [i \in DOMAIN s |-> {s[i].specs[j] : j \in DOMAIN s[i].specs}]

(***************************************************************************)
(* Acceptance of an observation recorded from Loki for source src:         *)
(*   parsed         the frontend produced an IR                            *)
(*   strings_ir     string-literal values found in the IR, in order        *)
(*   strings_out    string-literal values lexed from the regenerated code  *)
(*   comments_ir / comments_out, directives, idents (folded, a set given   *)
(*   as sequence), opens (specifier sets of the OPEN statements of the     *)
(*   regenerated code)                                                     *)
(* Result: the set of violated clauses.                                    *)
(***************************************************************************)
SeqSet(s) == {s[i] : i \in DOMAIN s}
ObsOpens(o) == [i \in DOMAIN o.opens |-> {<<o.opens[i][j][1], o.opens[i][j][2]>> : j \in DOMAIN o.opens[i]}]

\* string literals: exactly the source's literals, in order; a targeted macro token in code position may
\* additionally show up as one string constant of unspecified value (documented replacement)
StrPattern(src) == SelectSeq(Flat(src), LAMBDA r : r.k \in {"sq", "dq", "sqc", "tgt"})
RECURSIVE MatchStr(_, _)
MatchStr(o, e) ==
  IF e = <<>> THEN o = <<>>
  ELSE IF Head(e).k = "tgt" THEN MatchStr(o, Tail(e)) \/ (o # <<>> /\ MatchStr(Tail(o), Tail(e)))
  ELSE o # <<>> /\ Head(o) = Head(e).t /\ MatchStr(Tail(o), Tail(e))
StringsOK(o, src) == MatchStr(o, StrPattern(src))

Clauses(src, o) ==
  IF ~o.parsed THEN {"parse"}
  ELSE (IF ~StringsOK(o.strings_ir, src)  THEN {"string-ir"}   ELSE {})
  \cup (IF ~StringsOK(o.strings_out, src) THEN {"string-out"}  ELSE {})
  \cup (IF o.comments_ir  # Comments(src)   THEN {"comment-ir"}  ELSE {})
  \cup (IF o.comments_out # Comments(src)   THEN {"comment-out"} ELSE {})
  \cup (IF o.directives   # Directives(src) THEN {"directive"}   ELSE {})
  \cup (IF ~(Idents(src) \subseteq SeqSet(o.idents)) THEN {"identifier"} ELSE {})
  \cup (IF ObsOpens(o)    # Opens(src)      THEN {"open-specifiers"} ELSE {})

(***************************************************************************)
(* The universe of sources: every trigger in every lexical region at every *)
(* position.                                                               *)
(***************************************************************************)
Macros   == {"__FILE__", "__FILENAME__", "__DATE__", "__VERSION__", "__LINE__"}
\* whole-statement look-alikes of the OPEN workarounds' targets (text that reads like a complete OPEN statement
\* with CONVERT= / NEWUNIT=, in upper case and in lower/mixed case with a blank before the parenthesis)
OpenLike == {"OPENCONV", "OPENCONVLC", "OPENNEWU", "OPENNEWUMC"}
Triggers == Macros \cup {"@PROCESS", "CONVERT", "NEWUNIT"} \cup OpenLike
Positions == {"start", "middle", "end"}
Places == {"sq", "dq", "print", "callarg", "cmt", "icmt", "cpp", "id", "openstr", "opencmt", "opencont",
           "contstr", "contcmt", "code", "openspec", "semiopen"}

\* textual form of trigger t when quoted material must avoid the delimiter q ("s" single, "d" double, "" none)
Form(t, q) == CASE t = "CONVERT" -> IF q = "s" THEN "CONVERT=\"BIG_ENDIAN\"" ELSE "CONVERT='BIG_ENDIAN'"
                [] t = "NEWUNIT" -> "NEWUNIT=iu"
                [] t = "@PROCESS" -> "@PROCESS HOT"
                [] t = "OPENCONV" -> IF q = "s" THEN "OPEN(IU, FILE=\"x\", CONVERT=\"BIG_ENDIAN\")"
                                     ELSE "OPEN(IU, FILE='x', CONVERT='BIG_ENDIAN')"
                [] t = "OPENCONVLC" -> IF q = "s" THEN "open (iu, file=\"x\", convert=\"little_endian\")"
                                       ELSE "open (iu, file='x', convert='little_endian')"
                [] t = "OPENNEWU" -> "OPEN(NEWUNIT=IU, FILE=F)"
                [] t = "OPENNEWUMC" -> "Open (File=f, NewUnit=iu)"
                [] OTHER -> t

Put(f, pos) == CASE pos = "start" -> f \o " tail" [] pos = "middle" -> "head " \o f \o " tail" [] pos = "end" -> "head " \o f

OpenBase == << <<"unit", "iu">>, <<"file", "'f.dat'">> >>

\* the line(s) that carry the trigger
Payload(t, place, pos) ==
  CASE place = "sq"      -> << Ln(<<R("code", "msg = "), R("sq", Put(Form(t, "s"), pos))>>) >>
    [] place = "dq"      -> << Ln(<<R("code", "msg = "), R("dq", Put(Form(t, "d"), pos))>>) >>
    [] place = "print"   -> << Ln(<<R("code", "print *, "), R("sq", Put(Form(t, "s"), pos)), R("code", ", i")>>) >>
    [] place = "callarg" -> << Ln(<<R("code", "call ext(i, "), R("dq", Put(Form(t, "d"), pos)), R("code", ")")>>) >>
    [] place = "cmt"     -> << Ln(<<R("cmt", "! " \o Put(Form(t, ""), pos))>>) >>
    [] place = "icmt"    -> << Ln(<<R("code", "i = 1  "), R("cmt", "! " \o Put(Form(t, ""), pos))>>) >>
    [] place = "cpp"     -> << Ln(<<R("cpp", "#define MYMACRO " \o Put(Form(t, ""), pos))>>) >>
    [] place = "id"      -> << Ln(<<R("id", IF pos = "end" THEN "v" \o t ELSE "v" \o t \o "x"), R("code", " = 1")>>) >>
    [] place = "openstr" -> << Open(<<R("code", "open(unit=iu, file="), R("sq", Put(Form(t, "s"), pos)), R("code", ")")>>,
                                    << <<"unit", "iu">>, <<"file", "'" \o Put(Form(t, "s"), pos) \o "'">> >>) >>
    [] place = "opencmt" -> << Open(<<R("code", "open(unit=iu, file="), R("sq", "f.dat"), R("code", ")  "),
                                      R("cmt", "! " \o Put(Form(t, ""), pos))>>, OpenBase) >>
    [] place = "opencont"-> << Open(<<R("code", "open(unit=iu, "), R("cont", ""), R("code", "file="),
                                      R("sq", Put(Form(t, "s"), pos)), R("code", ")")>>,
                                    << <<"unit", "iu">>, <<"file", "'" \o Put(Form(t, "s"), pos) \o "'">> >>) >>
    \* a string continued over two lines with the look-alike on the continuation line
    [] place = "contstr" -> << Ln(<<R("code", "msg = "), R("sqc", Put(Form(t, "s"), pos))>>) >>
    \* a comment line between the lines of a continued statement
    [] place = "contcmt" -> << Ln(<<R("code", "i = 1 + &")>>),
                               Ln(<<R("cmt", "! " \o Put(Form(t, ""), pos))>>),
                               Ln(<<R("code", "& 2")>>) >>
    \* a real OPEN statement (targeted, must be restored) that does not start its line
    [] place = "semiopen"->
         LET tx == IF t = "CONVERT" THEN <<R("code", "i = 1; open(unit=iu, file="), R("sq", "f.dat"), R("code", ", CONVERT="),
                                             R("sq", "BIG_ENDIAN"), R("code", ")")>>
                   ELSE <<R("code", "i = 1; open(NEWUNIT=iu, file="), R("sq", "f.dat"), R("code", ")")>>
             sp == IF t = "CONVERT" THEN << <<"unit", "iu">>, <<"file", "'f.dat'">>, <<"convert", "'BIG_ENDIAN'">> >>
                   ELSE << <<"newunit", "iu">>, <<"file", "'f.dat'">> >>
         IN << Open(tx, sp) >>
    [] place = "code"    -> IF t = "@PROCESS" THEN <<>>     \* (the directive line precedes the unit, see Source)
                            ELSE << Ln(<<R("code", IF t = "__LINE__" THEN "i = " ELSE "msg = "), R("tgt", t)>>) >>
    [] place = "openspec"->
         LET sp  == IF t = "CONVERT" THEN <<"convert", "'BIG_ENDIAN'">> ELSE <<"newunit", "iu">>
             tx  == IF t = "CONVERT" THEN <<R("code", "CONVERT="), R("sq", "BIG_ENDIAN")>> ELSE <<R("code", "NEWUNIT=iu")>>
             fl  == <<R("code", "file="), R("sq", "f.dat")>>
             st  == <<R("code", "status="), R("sq", "old")>>
             sep == <<R("code", ", ")>>
             fls == <<"file", "'f.dat'">>
             sts == <<"status", "'old'">>
             \* CONVERT= needs a unit; NEWUNIT= is the unit
             un  == IF t = "CONVERT" THEN <<R("code", "unit=iu, ")>> ELSE <<>>
             uns == IF t = "CONVERT" THEN << <<"unit", "iu">> >> ELSE <<>>
         IN CASE pos = "start"  -> << Open(<<R("code", "open(")>> \o tx \o sep \o un \o fl \o sep \o st \o <<R("code", ")")>>, <<sp>> \o uns \o <<fls, sts>>) >>
              [] pos = "middle" -> << Open(<<R("code", "open(")>> \o un \o fl \o sep \o tx \o sep \o st \o <<R("code", ")")>>, uns \o <<fls, sp, sts>>) >>
              [] pos = "end"    -> << Open(<<R("code", "open(")>> \o un \o fl \o sep \o st \o sep \o tx \o <<R("code", ")")>>, uns \o <<fls, sts, sp>>) >>

\* which placements exist (legal Fortran / meaningful)
Legal(t, place, pos) ==
  /\ (place = "id" => t \in Macros /\ pos # "start")              \* identifiers start with a letter, contain no = @ '
  /\ (place = "code" => t \in Macros \cup {"@PROCESS"} /\ pos = "start")
  /\ (place = "openspec" => t \in {"CONVERT", "NEWUNIT"})
  /\ (place = "semiopen" => t \in {"CONVERT", "NEWUNIT"} /\ pos = "start")
  /\ (place \in {"contstr", "contcmt"} => t \in OpenLike)
  /\ (place = "contstr" => pos # "start")              \* the break comes right after "head "
  /\ (t \in OpenLike => place \notin {"id", "code", "openspec", "semiopen"})

Source(t, place, pos) ==
  (IF place = "code" /\ t = "@PROCESS" THEN << Ln(<<R("tgt", "@PROCESS HOT(NOVECTOR) NOSTRICT")>>) >> ELSE <<>>)
  \o << Ln(<<R("code", "subroutine sani(iu)")>>),
        Ln(<<R("code", "integer :: iu, i")>>) >>
  \o (IF place = "id" THEN << Ln(<<R("code", "integer :: "), R("id", IF pos = "end" THEN "v" \o t ELSE "v" \o t \o "x")>>) >> ELSE <<>>)
  \o << Ln(<<R("code", "character(len=64) :: msg")>>),
        Ln(<<R("cmt", "! plain comment")>>),
        Ln(<<R("code", "msg = "), R("sq", "plain")>>) >>
  \o Payload(t, place, pos)
  \o << Ln(<<R("code", "i = 2")>>),
        Ln(<<R("code", "end subroutine sani")>>) >>

Placements == {<<t, place, pos>> \in Triggers \X Places \X Positions : Legal(t, place, pos)}

(* design-level sanity of the universe: every non-targeted placement really carries the trigger in an
   observable that the clauses compare, and targeted code placements carry none *)
Observed(src) == Len(Strings(src)) + Len(Comments(src)) + Len(Directives(src)) + Cardinality(Idents(src)) + Len(Opens(src))
=============================================================================
