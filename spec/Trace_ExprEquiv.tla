--------------------------- MODULE Trace_ExprEquiv ---------------------------
(* Batch validation of "these two expressions denote the same value" events (C06, C07, C08).    *)
(* A case is [id, typings, ref, obs]; ref / obs are [form |-> "tree", tree] or                    *)
(* [form |-> "toks", toks] (token sequence to be parsed by the reference parser FParse).          *)
(* Accepted iff for every typing and every sampled valuation on which the reference value is      *)
(* defined (no division by zero, inside the model's magnitude bound), the observed expression     *)
(* has the same value.  Cases where the reference is defined on no valuation are "vacuous".       *)
EXTENDS FParse, Json, IOUtils, SequencesExt

Cases == JsonDeserialize(IOEnv.CASES)

TreeOf(x) == IF x.form = "tree" THEN [e |-> x.tree, ext |-> FALSE] ELSE Parse(x.toks)

EnvStr(env) == "a=" \o ToString(Image(env["a"])) \o ",b=" \o ToString(Image(env["b"])) \o ",c=" \o ToString(Image(env["c"]))

IntEnvSeq == SetToSeq(IntEnvs)
RealEnvSeq == SetToSeq(RealEnvs)
EnvSeq(ty) == IF ty = "int" THEN IntEnvSeq ELSE RealEnvSeq

\* scan the valuations of one typing; result <<ok, index of first mismatch or 0, number of legal valuations>>
RECURSIVE Scan(_, _, _, _, _)
Scan(re, oe, envs, i, nlegal) ==
  IF i > Len(envs) THEN <<TRUE, 0, nlegal>>
  ELSE LET rv == Eval(re, envs[i]) IN
       IF IsErr(rv) THEN Scan(re, oe, envs, i + 1, nlegal)
       ELSE LET ov == Eval(oe, envs[i]) IN
            \* an intermediate magnitude beyond the model in the observed expression is not judged
            IF IsErr(ov) /\ ov.why = "big" THEN Scan(re, oe, envs, i + 1, nlegal)
            ELSE IF SameValue(ov, rv) THEN Scan(re, oe, envs, i + 1, nlegal + 1)
            ELSE <<FALSE, i, nlegal>>

RECURSIVE ScanTypings(_, _, _, _, _)
ScanTypings(re, oe, tys, j, nlegal) ==
  IF j > Len(tys) THEN <<TRUE, "", nlegal>>
  ELSE LET s == Scan(re, oe, EnvSeq(tys[j]), 1, 0) IN
       IF s[1] THEN ScanTypings(re, oe, tys, j + 1, nlegal + s[3])
       ELSE LET env == EnvSeq(tys[j])[s[2]] IN
            <<FALSE, "value-differs:" \o tys[j] \o ":" \o EnvStr(env) \o ":ref=" \o ToString(Image(Eval(re, env)))
                      \o ":obs=" \o ToString(Image(Eval(oe, env))), nlegal + s[3]>>

\* cur holds the two trees of the current case, already parsed (a state variable is a fully
\* evaluated value: the reference parser runs once per case, not once per valuation)
Load(i) == IF i <= Len(Cases) THEN [r |-> TreeOf(Cases[i].ref), o |-> TreeOf(Cases[i].obs)]
           ELSE [r |-> [e |-> [k |-> "bad"], ext |-> FALSE], o |-> [e |-> [k |-> "bad"], ext |-> FALSE]]

Judge(c, cur) ==
  IF cur.r.e.k = "bad" THEN <<FALSE, "ref-unparsable", 0>>
  ELSE IF cur.o.e.k = "bad" THEN <<FALSE, "obs-unparsable", 0>>
  ELSE LET s == ScanTypings(cur.r.e, cur.o.e, c.typings, 1, 0) IN
       IF s[1] THEN <<TRUE, IF s[3] = 0 THEN "vacuous" ELSE IF cur.r.ext \/ cur.o.ext THEN "ok-gnu-ext" ELSE "ok", s[3]>>
       ELSE s

VARIABLES tid, cur
Init == tid = 1 /\ cur = Load(1)
Next == /\ tid <= Len(Cases)
        /\ LET c == Cases[tid]
               j == Judge(c, cur)
           IN PrintT(<<"VERDICT", c.id, j[1], j[2], j[3]>>)
        /\ tid' = tid + 1
        /\ cur' = Load(tid + 1)
Spec == Init /\ [][Next]_<<tid, cur>>
=============================================================================
