---- MODULE MC_LintQueue ----
(* Design-level model checking of LintQueue: every file set of at most MaxN files, every subset   *)
(* of files that fail to parse, W in 1..MaxW workers, H report handlers; all interleavings.       *)
EXTENDS LintQueue
CONSTANTS MaxN, MaxW, NH
VARIABLES c, s
vars == <<c, s>>

Configs == UNION {{[n |-> n, fails |-> fl, W |-> w, H |-> NH] : fl \in SUBSET (1..n)} : n \in 1..MaxN, w \in 1..MaxW}

Init == c \in Configs /\ s = InitState(c)
Do(e) == En(c, s, e) /\ s' = Ap(c, s, e) /\ c' = c
Submit       == \E f \in Files(c) : Do(Ev("submit", f))
EndSubmit    == En(c, s, Ev("endsubmit", 0)) /\ s' = Ap(c, s, Ev("endsubmit", 0)) /\ c' = c
Begin        == \E f \in Files(c) : Do(Ev("begin", f))
Check        == \E f \in Files(c) : Do(Ev("check", f))
ParseFail    == \E f \in Files(c) : Do(Ev("parsefail", f))
Report       == \E f \in Files(c) : Do(Ev("report", f))
End          == \E f \in Files(c) : Do(Ev("end", f))
Collect      == \E f \in Files(c) : Do(Ev("collect", f))
SerialReturn == En(c, s, Ev("serialreturn", 0)) /\ s' = Ap(c, s, Ev("serialreturn", 0)) /\ c' = c
Output       == En(c, s, Ev("output", 0)) /\ s' = Ap(c, s, Ev("output", 0)) /\ c' = c
Next == Submit \/ EndSubmit \/ Begin \/ Check \/ ParseFail \/ Report \/ End \/ Collect \/ SerialReturn \/ Output
Spec == Init /\ [][Next]_vars /\ WF_vars(Next)

TypeOK                    == TypeOKP(c, s)
EachFileOnce              == EachFileOnceP(c, s)
ReportsAreFunctionOfFile  == ReportsAreFunctionOfFileP(c, s)
CountIsParsed             == CountIsParsedP(c, s)
WorkersBound              == WorkersBoundP(c, s)
ClosureIsInvisible        == LET t == Closure(c, s) IN t.rep = s.rep /\ t.nbegin = s.nbegin /\ t.out = s.out
EventuallyDone            == <>(s.pc = "done")
====
