----------------------------- MODULE Gen_SymTab -----------------------------
(* Behaviour generator for C12 (spec -> code direction): random walks through SymTab's event   *)
(* vocabulary; every behaviour is printed as JSON together with the specified return value   *)
(* and state after each step.  Run with  tlc -simulate num=N -depth D -seed S.               *)
EXTENDS SymTab, Json
CONSTANT GenDepth
VARIABLE hist
gvars == <<st, hist>>
GInit == st = InitSt /\ hist = <<>>
\* (the bound variable fixes one random draw; a LET would re-draw at every use)
AllOps == {e.op : e \in Events(InitSt)}
GNext == \E op \in {RandomElement(AllOps)} : \E e \in {RandomElement({x \in Events(st) : x.op = op} \cup {[op |-> "contains", s |-> 1, k |-> "a"]})} :
           LET r == Apply(st, e)
           IN  st' = r.st /\ hist' = Append(hist, [e |-> e, ret |-> r.ret, tab |-> r.st.tab, parent |-> r.st.parent])
Emit == (Len(hist) = GenDepth) => PrintT(<<"BEHAVIOUR", ToJson(hist)>>)
GSpec == GInit /\ [][GNext]_gvars
=============================================================================
