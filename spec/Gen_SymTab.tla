----------------------------- MODULE Gen_SymTab -----------------------------
(* Behaviour generator for C12 (spec -> code direction): random walks through SymTab's event   *)
(* vocabulary; every behaviour is printed as JSON together with the specified return value   *)
(* and state after each step.  Run with  tlc -simulate num=N -depth D+2 -seed S.             *)
(* The simulator chooses uniformly among successor states; `pick` (the operation of the next *)
(* step) is drawn one step ahead so that operations are equally likely whatever the size of  *)
(* their argument space (RandomElement is unusable: TLC repeats its draw).  The behaviour is  *)
(* printed by the step after the last event, i.e. only for the walk the simulator took.      *)
EXTENDS SymTab, Json
CONSTANT GenDepth
VARIABLES hist, pick
gvars == <<st, hist, pick>>
AllOps == {e.op : e \in Events(InitSt)}
GInit == st = InitSt /\ hist = <<>> /\ pick \in AllOps
GNext == IF Len(hist) < GenDepth
         THEN LET sel == {x \in Events(st) : x.op = pick}
              IN \E e \in (IF sel = {} THEN {[op |-> "contains", s |-> 1, k |-> "a"]} ELSE sel) : \E nxt \in AllOps :
                   LET r == Apply(st, e)
                   IN  /\ st' = r.st
                       /\ hist' = Append(hist, [e |-> e, ret |-> r.ret, tab |-> r.st.tab, parent |-> r.st.parent])
                       /\ pick' = nxt
         ELSE /\ pick # "done"
              /\ PrintT(<<"BEHAVIOUR", ToJson(hist)>>)
              /\ pick' = "done" /\ UNCHANGED <<st, hist>>
GSpec == GInit /\ [][GNext]_gvars
=============================================================================
