------------------------------ MODULE LineWrap ------------------------------
(***************************************************************************)
(* C04: generated Fortran respects the free-form line limit without        *)
(* altering tokens.                                                        *)
(*                                                                         *)
(* Text is a sequence of physical lines, a line a sequence of character    *)
(* codes (TLC strings cannot be indexed).  The module defines              *)
(*                                                                         *)
(*  Statements(lines)  the free-form reading of the lines: continuation    *)
(*      markers are removed with the rules of the Fortran standard         *)
(*      (6.3.2.4: in non-character context a trailing `&`, optionally      *)
(*      followed by a comment, continues the statement; the next           *)
(*      non-comment line continues after its leading `&` if it has one,    *)
(*      else at column 1; inside character context the `&` must be the     *)
(*      last non-blank character and the continuation resumes after the    *)
(*      leading `&`), comments are dropped and the character stream is     *)
(*      split into tokens: names/numbers (maximal runs of letters, digits, *)
(*      `_`, `.`), character literals with both quote kinds and doubled    *)
(*      quotes (verbatim, blanks included), two-character operators and    *)
(*      single punctuation characters.  Result: a sequence of statements,  *)
(*      each a sequence of tokens.                                         *)
(*                                                                         *)
(*  LineClause(l, W, ..)   Len(l) <= W, or the line is exempt: the part    *)
(*      before a trailing comment fits, or the line holds a single         *)
(*      unbreakable token that is itself longer than W.                    *)
(*                                                                         *)
(* Level (i)  (JoinableStringList in isolation): items come from a small   *)
(* described universe (Text), the expected token sequence is that of the   *)
(* plain `sep.join(items)` (Concat).  Level (ii) (whole programs): the     *)
(* expected statements are those of the same IR printed with an            *)
(* effectively infinite width.                                             *)
(***************************************************************************)
EXTENDS Naturals, Sequences, TLC

BL == 32  TAB == 9  AMP == 38  BANG == 33  SQ == 39  DQ == 34  HASH == 35

\* TLC re-evaluates LET definitions at every use; a value bound by a quantifier is computed once:
\*     Pick({Body(v) : v \in {Expr}})   evaluates Expr once and Body once
Pick(S) == CHOOSE x \in S : TRUE

IsBlank(c) == c = BL \/ c = TAB
IsWord(c) == (c >= 48 /\ c <= 57) \/ (c >= 65 /\ c <= 90) \/ (c >= 97 /\ c <= 122) \/ c = 95 \/ c = 46
\* ** // == /= <= >= => :: (/ /)
TwoChar == { <<42, 42>>, <<47, 47>>, <<61, 61>>, <<47, 61>>, <<60, 61>>, <<62, 61>>, <<61, 62>>, <<58, 58>>,
             <<40, 47>>, <<47, 41>> }

(* ------------------------------------------------------------ the lexer *)
\* state: m  mode  "c" code | "s" / "d" inside a '..' / ".." literal | "sq" / "dq" a quote was seen
\*                 inside the literal (closing quote or first half of a doubled quote)
\*        cur the characters of the token being built, toks the finished tokens of the statement
Fresh == [m |-> "c", cur |-> <<>>, toks |-> <<>>]
Flush(st) == IF st.cur = <<>> THEN st ELSE [st EXCEPT !.toks = Append(@, st.cur), !.cur = <<>>]

StepCode(st, c) ==
  IF IsBlank(c) THEN Flush(st)
  ELSE IF c = SQ THEN [Flush(st) EXCEPT !.m = "s", !.cur = <<c>>]
  ELSE IF c = DQ THEN [Flush(st) EXCEPT !.m = "d", !.cur = <<c>>]
  ELSE IF IsWord(c) THEN
       IF st.cur # <<>> /\ IsWord(st.cur[1]) THEN [st EXCEPT !.cur = Append(@, c)]
       ELSE [Flush(st) EXCEPT !.cur = <<c>>]
  ELSE IF Len(st.cur) = 1 /\ <<st.cur[1], c>> \in TwoChar THEN Flush([st EXCEPT !.cur = Append(@, c)])
  ELSE [Flush(st) EXCEPT !.cur = <<c>>]

Step(st, c) ==
  CASE st.m = "c" -> StepCode(st, c)
    [] st.m = "s" -> [st EXCEPT !.cur = Append(@, c), !.m = IF c = SQ THEN "sq" ELSE "s"]
    [] st.m = "d" -> [st EXCEPT !.cur = Append(@, c), !.m = IF c = DQ THEN "dq" ELSE "d"]
    [] st.m = "sq" -> IF c = SQ THEN [st EXCEPT !.cur = Append(@, c), !.m = "s"]
                      ELSE StepCode(Flush([st EXCEPT !.m = "c"]), c)
    [] st.m = "dq" -> IF c = DQ THEN [st EXCEPT !.cur = Append(@, c), !.m = "d"]
                      ELSE StepCode(Flush([st EXCEPT !.m = "c"]), c)

RECURSIVE LastNB(_, _), FirstNB(_, _)
LastNB(l, i) == IF i = 0 THEN 0 ELSE IF ~IsBlank(l[i]) THEN i ELSE LastNB(l, i - 1)
FirstNB(l, i) == IF i > Len(l) THEN i ELSE IF ~IsBlank(l[i]) THEN i ELSE FirstNB(l, i + 1)
RestBlankOrComment(l, i) == LET j == FirstNB(l, i) IN j > Len(l) \/ l[j] = BANG

\* Scan the characters i.. of a physical line.  Result: the lexer state, whether the line is continued,
\* and the column where a trailing comment starts (0: none).
RECURSIVE Scan(_, _, _, _)
Scan(st, l, i, last) ==
  IF i > Len(l) THEN [st |-> st, cont |-> FALSE, cm |-> 0]
  ELSE LET c == l[i] IN
    IF st.m \in {"s", "d"} THEN
         IF c = AMP /\ i = last THEN [st |-> st, cont |-> TRUE, cm |-> 0]
         ELSE Scan(Step(st, c), l, i + 1, last)
    ELSE IF (st.m = "sq" /\ c = SQ) \/ (st.m = "dq" /\ c = DQ) THEN Scan(Step(st, c), l, i + 1, last)
    ELSE IF c = BANG THEN [st |-> st, cont |-> FALSE, cm |-> i]
    ELSE IF c = AMP /\ RestBlankOrComment(l, i + 1)
         THEN [st |-> st, cont |-> TRUE, cm |-> LET j == FirstNB(l, i + 1) IN IF j > Len(l) THEN 0 ELSE j]
    ELSE Scan(Step(st, c), l, i + 1, last)

InChar(st) == st.m \in {"s", "d"}
\* where the scan of a line starts: after the leading `&` of a continuation line
StartCol(l, contd) == LET f == FirstNB(l, 1) IN IF contd /\ f <= Len(l) /\ l[f] = AMP THEN f + 1 ELSE 1
\* lines that are not part of the statement text: blank / comment-only lines (also between continued lines,
\* but not inside character context) and preprocessor lines
Skipped(l, st, contd) == LET f == FirstNB(l, 1) IN
   \/ (~InChar(st) /\ (f > Len(l) \/ l[f] = BANG))
   \/ (~contd /\ f <= Len(l) /\ l[f] = HASH)

\* end of a statement: an unterminated literal is made visible by the marker token <<0>>
Close(st) == IF InChar(st) THEN Append(Append(st.toks, st.cur), <<0>>) ELSE Flush(st).toks

\* S = [st, contd, stmts, ends]: ends[k] is the number of the physical line on which statement k ends
Start == [st |-> Fresh, contd |-> FALSE, stmts |-> <<>>, ends |-> <<>>]
EndStmt(S, t, i) == IF t = <<>> THEN [S EXCEPT !.st = Fresh, !.contd = FALSE]
                    ELSE [st |-> Fresh, contd |-> FALSE, stmts |-> Append(S.stmts, t), ends |-> Append(S.ends, i)]
AfterScan(S, r, i) == IF r.cont THEN [S EXCEPT !.st = r.st, !.contd = TRUE]
                      ELSE Pick({EndStmt(S, t, i) : t \in {Close(r.st)}})
DoLine(S, l, i) ==
  IF Skipped(l, S.st, S.contd) THEN S
  ELSE Pick({AfterScan(S, r, i) : r \in {Scan(S.st, l, StartCol(l, S.contd), LastNB(l, Len(l)))}})

RECURSIVE Fold(_, _, _)
Fold(S, lines, i) == IF i > Len(lines) THEN S ELSE Fold(DoLine(S, lines[i], i), lines, i + 1)

\* a continuation that runs off the end of the text is made visible by the marker token <<1>>
Read(lines) == Pick({IF S.contd THEN [S EXCEPT !.stmts = Append(@, Append(Close(S.st), <<1>>)), !.ends = Append(@, Len(lines))] ELSE S :
                        S \in {Fold(Start, lines, 1)}})
Statements(lines) == Read(lines).stmts

RECURSIVE Flatten(_, _, _)
Flatten(ss, i, acc) == IF i > Len(ss) THEN acc ELSE Flatten(ss, i + 1, acc \o ss[i])

(* ------------------------------------------------------- the line clause *)
\* tokens (and token pieces) lying on one physical line, given the context the line starts in
LineTokens(l, mode0, contd) ==
  Pick({[toks |-> IF r.st.cur = <<>> THEN r.st.toks ELSE Append(r.st.toks, r.st.cur), cm |-> r.cm] :
           r \in {Scan([m |-> mode0, cur |-> <<>>, toks |-> <<>>], l, StartCol(l, contd), LastNB(l, Len(l)))}})
MaxLen(toks) == IF toks = <<>> THEN 0 ELSE LET k == CHOOSE k \in DOMAIN toks : \A j \in DOMAIN toks : Len(toks[j]) <= Len(toks[k])
                                           IN Len(toks[k])
\* "ok" | "long" (a line of several breakable tokens exceeds W) |
\* "near" (the longest token t on the line is not longer than W, so the clause applies, but t does not fit on a line of
\*         its own behind the line's indentation and between continuation markers `& ` .. ` &` (Over characters)) --
\* both violate the property; the distinction only serves the normal-form keys
Clause3(l, W, Over, cm, mx) ==
  IF cm > 0 /\ LastNB(l, cm - 1) <= W THEN "ok"            \* only the trailing comment is longer
  ELSE IF mx > W THEN "ok"                                 \* a single unbreakable token is longer
  ELSE IF mx + Over + (FirstNB(l, 1) - 1) > W THEN "near"
  ELSE "long"
LineClause(l, W, Over, mode0, contd) ==
  IF Len(l) <= W THEN "ok"
  ELSE Pick({Clause3(l, W, Over, lt.cm, MaxLen(lt.toks)) : lt \in {LineTokens(l, mode0, contd)}})

\* One pass over a text: the reading (stmts, ends) and bad = <<line number, clause>> of the offending lines.
RECURSIVE LineScan(_, _, _, _, _, _)
LineScan(S, lines, i, W, Over, bad) ==
  IF i > Len(lines) THEN [S |-> S, bad |-> bad]
  ELSE LET l == lines[i] IN
       \* blank, comment-only and preprocessor lines carry no tokens (comments are exempt)
       IF Len(l) <= W \/ Skipped(l, S.st, S.contd) THEN LineScan(DoLine(S, l, i), lines, i + 1, W, Over, bad)
       ELSE Pick({LineScan(DoLine(S, l, i), lines, i + 1, W, Over, IF cl = "ok" THEN bad ELSE Append(bad, <<i, cl>>)) :
                     cl \in {LineClause(l, W, Over, IF InChar(S.st) THEN S.st.m ELSE "c", S.contd)}})
Finish(r, n) == [stmts |-> IF r.S.contd THEN Append(r.S.stmts, Append(Close(r.S.st), <<1>>)) ELSE r.S.stmts,
                 ends |-> IF r.S.contd THEN Append(r.S.ends, n) ELSE r.S.ends,
                 bad |-> r.bad]
ReadChecked(lines, W, Over) == Pick({Finish(r, Len(lines)) : r \in {LineScan(Start, lines, 1, W, Over, <<>>)}})
BadLines(lines, W, Over) == ReadChecked(lines, W, Over).bad

(* --------------------------------------------------- comparing statements *)
Min2(a, b) == IF a < b THEN a ELSE b
\* first position at which two sequences differ (Min2(len) + 1 if one is a proper prefix), 0 if equal
RECURSIVE FirstDiffFrom(_, _, _, _)
FirstDiffFrom(a, b, k, n) == IF k > n THEN n + 1 ELSE IF a[k] # b[k] THEN k ELSE FirstDiffFrom(a, b, k + 1, n)
FirstDiff(a, b) == IF a = b THEN 0 ELSE FirstDiffFrom(a, b, 1, Min2(Len(a), Len(b)))

(* ------------------------------------------- level (i): described items *)
\* A described item is [k, n] (leaf of kind k and length n), [k |-> "L", items, sep, separable] (a nested list) or
\* [k |-> "W", ..] (a nested list with a bracket prepended / appended by the + operators of the class).
Alpha == <<97, 98, 99, 100, 101, 102, 103, 104, 105>>                               \* abcdefghi
QPat  == <<120, 32, 121, 32, 122, 32, 119>>                                         \* x y z w
EPat  == <<97, 39, 39, 98, 32, 99, 32>>                                             \* a''b c_
DPat  == <<97, 39, 98, 32, 99, 32, 100>>                                            \* a'b c d
BPat  == <<97, 40, 98, 41, 37, 99, 40, 100, 41, 32, 101, 40, 102, 41, 103>>         \* a(b)%c(d) e(f)g
Blanks == <<32, 32, 32, 32, 32, 32>>
OText(n) == CASE n = 1 -> <<40>> [] n = 2 -> <<41>> [] n = 3 -> <<32, 61, 32>> [] n = 4 -> <<44, 32>>
LeafOK(it) ==
  CASE it.k = "P" -> it.n \in 1..9          \* a name
    [] it.k = "Q" -> it.n \in 3..9          \* '...' with blanks
    [] it.k = "E" -> it.n \in 6..9          \* '...' with a doubled quote and blanks
    [] it.k = "D" -> it.n \in 4..9          \* "..." with an apostrophe and blanks
    [] it.k = "B" -> it.n \in 1..15         \* a phrase with brackets, % and blanks
    [] it.k = "K" -> it.n \in 2..9          \* a keyword followed by a blank
    [] it.k = "S" -> it.n \in 1..6          \* indentation
    [] it.k = "O" -> it.n \in 1..4          \* ( ) = ,
    [] OTHER -> FALSE
LeafText(it) ==
  CASE it.k = "P" -> SubSeq(Alpha, 1, it.n)
    [] it.k = "Q" -> <<SQ>> \o SubSeq(QPat, 1, it.n - 2) \o <<SQ>>
    [] it.k = "E" -> <<SQ>> \o SubSeq(EPat, 1, it.n - 2) \o <<SQ>>
    [] it.k = "D" -> <<DQ>> \o SubSeq(DPat, 1, it.n - 2) \o <<DQ>>
    [] it.k = "B" -> SubSeq(BPat, 1, it.n)
    [] it.k = "K" -> SubSeq(Alpha, 1, it.n - 1) \o <<BL>>
    [] it.k = "S" -> SubSeq(Blanks, 1, it.n)
    [] it.k = "O" -> OText(it.n)

RECURSIVE WF(_, _), Text(_), Join(_, _, _, _)
WF(it, depth) == IF it.k \in {"L", "W"} THEN depth > 0 /\ Len(it.items) >= 1 /\ \A i \in DOMAIN it.items : WF(it.items[i], depth - 1)
                 ELSE LeafOK(it)
\* the documented meaning of a JoinableStringList: sep.join(items), nested lists joined with their own separator
Text(it) == IF it.k = "L" THEN Join(it.items, it.sep, 1, <<>>)
            ELSE IF it.k = "W" THEN <<40>> \o Join(it.items, it.sep, 1, <<>>) \o <<41>>      \* '(' + list + ')'
            ELSE LeafText(it)
Join(items, sep, i, acc) == IF i > Len(items) THEN acc
                            ELSE Join(items, sep, i + 1, acc \o Text(items[i]) \o (IF i < Len(items) THEN sep ELSE <<>>))

\* the pieces between which a JoinableStringList may break: the leaves and the separators
RECURSIVE Pieces(_), JoinPieces(_, _, _, _)
Pieces(it) == IF it.k = "L" THEN JoinPieces(it.items, it.sep, 1, <<>>)
              ELSE IF it.k = "W" THEN <<<<40>>>> \o JoinPieces(it.items, it.sep, 1, <<>>) \o <<<<41>>>>
              ELSE <<LeafText(it)>>
JoinPieces(items, sep, i, acc) == IF i > Len(items) THEN acc
                                  ELSE JoinPieces(items, sep, i + 1, acc \o Pieces(items[i]) \o (IF i < Len(items) /\ sep # <<>> THEN <<sep>> ELSE <<>>))
RECURSIVE PieceTokens(_, _, _)
PieceTokens(ps, i, acc) == IF i > Len(ps) THEN acc ELSE PieceTokens(ps, i + 1, acc \o Flatten(Statements(<<ps[i]>>), 1, <<>>))
\* Assumption on the callers (made explicit): piece boundaries are token boundaries (the backend passes keywords,
\* names, brackets, operators and expression strings), and no piece contains `&` or `!` outside a literal.
Aligned(top) == Flatten(Statements(<<Text(top)>>), 1, <<>>) = PieceTokens(Pieces(top), 1, <<>>)

\* what kind of token t is (for the normal-form keys)
TokKind(t) == IF t[1] \in {SQ, DQ} THEN
                  (IF \E i \in 2..(Len(t) - 2) : t[i] = t[1] /\ t[i + 1] = t[1] THEN "literal-doubled-quote" ELSE "literal")
              ELSE IF IsWord(t[1]) THEN "word" ELSE "punct"
\* "No line shall contain a single & as the only nonblank character" (6.3.2.4): first such line, 0 if none
RECURSIVE LoneAmp(_, _)
LoneAmp(lines, i) == IF i > Len(lines) THEN 0
                     ELSE LET l == lines[i] f == FirstNB(l, 1) IN
                          IF f <= Len(l) /\ l[f] = AMP /\ LastNB(l, Len(l)) = f THEN i ELSE LoneAmp(lines, i + 1)

\* The acceptance of one printed form of a described list: <<>> or <<clause, position>>
\*   want = the tokens of Text(top);  x = [width, cont0 (end-of-line string without the newline), cont1, out (lines)]
Accept1b(want, x, rd, got, d, lone) ==
  IF lone # 0 THEN <<"lone-ampersand", lone>>
  ELSE IF Len(rd.stmts) > 1 THEN <<"statement-split", rd.ends[1]>>
  ELSE IF d # 0 /\ \E k \in DOMAIN got : got[k] = <<AMP>> THEN <<"stray-ampersand", d>>
  ELSE IF d # 0 THEN <<"tokens:" \o (IF d <= Len(want) THEN TokKind(want[d]) ELSE "count"), d>>
  ELSE IF rd.bad # <<>> THEN <<"line-" \o rd.bad[1][2], rd.bad[1][1]>>
  ELSE <<>>
Accept1(want, x) ==
  Pick({ Pick({ Pick({ Accept1b(want, x, rd, got, d, LoneAmp(x.out, 1)) : d \in {FirstDiff(want, got)} }) :
                  got \in {Flatten(rd.stmts, 1, <<>>)} }) :
           rd \in {ReadChecked(x.out, x.width, 4)} })

(* -------------------------------- a reference wrapper (design-level check) *)
\* Greedy wrapping of a token sequence into lines of width W with continuation strings c0 (end of line) and c1
\* (start of the next line): the contract is satisfiable, and MC_LineWrap checks that Accept takes what it produces.
RECURSIVE Greedy(_, _, _, _, _, _, _)
Greedy(toks, i, line, lines, W, c0, c1) ==
  IF i > Len(toks) THEN Append(lines, line)
  ELSE LET t == toks[i]
           sp == IF line = <<>> \/ line = c1 THEN <<>> ELSE <<BL>>
       IN IF Len(line) + Len(sp) + Len(t) + Len(c0) <= W \/ line = <<>> \/ line = c1
          THEN Greedy(toks, i + 1, line \o sp \o t, lines, W, c0, c1)
          ELSE Greedy(toks, i, c1, Append(lines, line \o c0), W, c0, c1)
=============================================================================
