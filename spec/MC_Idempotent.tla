--------------------------- MODULE MC_Idempotent ---------------------------
(* Design-level check of the C40 clause: FirstDiff is a correct witness, the clause accepts one-pass      *)
(* normalisers (Lower, PruneAll) on every source of the small universe and rejects the level-by-level      *)
(* pruner on some source (so the clause can tell the two apart).                                           *)
EXTENDS Idempotent, TLC
Tok == {"A", "a", "T(", ")", "x"}
RECURSIVE SeqsUpTo(_)
SeqsUpTo(n) == IF n = 0 THEN {<<>>} ELSE LET S == SeqsUpTo(n - 1) IN S \cup {Append(s, t) : s \in {u \in S : Len(u) = n - 1}, t \in Tok}
Sources(dummy) == {s \in SeqsUpTo(5) : Balanced(s) /\ \A i \in 1..Len(s) : s[i] = ")" => \E j \in 1..(i - 1) : s[j] = "T(" /\ Match(s, j + 1, 0) = i}

VARIABLES src, other
Init == src \in Sources(0) /\ other \in SeqsUpTo(2)
Next == UNCHANGED <<src, other>>
Spec == Init /\ [][Next]_<<src, other>>

Case(T(_), s) == [text0 |-> s, text1 |-> T(s), text2 |-> T(T(s)), status2 |-> "ok"]
PruneOuter1(s) == PruneOuter(s, 1)

FirstDiffIsWitness ==
  LET a == SubSeq(src, 1, Min2(Len(src), 3)) b == other k == FirstDiff(a, b) IN
  /\ (k = 0) <=> (a = b)
  /\ k > 0 => /\ SubSeq(a, 1, k - 1) = SubSeq(b, 1, k - 1)
              /\ (k > Len(a) \/ k > Len(b) \/ a[k] # b[k])
              /\ k <= Min2(Len(a), Len(b)) + 1
OnePassAccepted == Judge(Case(Lower, src))[1] /\ Judge(Case(PruneAll, src))[1]
IdentityVsChanged == Judge(Case(Lower, src))[2] = (IF \E i \in 1..Len(src) : src[i] = "A" THEN "ok:changed-once" ELSE "ok:identity")
\* the level-by-level pruner is rejected exactly on sources with nested always-true conditionals
NestedRejected ==
  LET nested == \E i, j \in 1..Len(src) : i < j /\ src[i] = "T(" /\ src[j] = "T(" /\ j < Match(src, i + 1, 0)
      v == Judge(Case(PruneOuter1, src))
  IN (nested <=> ~v[1]) /\ (~v[1] => v[2] = "second-application-changes-text" /\ v[3] >= 1)
RaisedRejected == ~Judge([text0 |-> src, text1 |-> src, text2 |-> src, status2 |-> "raised"])[1]
=============================================================================
