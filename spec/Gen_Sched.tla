---------------------------- MODULE Gen_Sched ----------------------------
(* Case generator for the conformance runs of C21/C22: random members of the small-scope          *)
(* universe (SchedUniverse) that are legal and acyclic, printed as JSON.                          *)
(* Run:  tlc -simulate num=1 -depth N+1 -seed S                                                   *)
EXTENDS SchedUniverse, Json
CONSTANTS NP, Styles, VarImps, FileModes, SeedOpts, PruneOpts
VARIABLE n
\* acyclic call relations only (forward pairs + self recursion of p2)
FwdPairs == {<<i, j>> \in (1..NP) \X (1..NP) : i < j} \cup {<<2, 2>>}
GInit == n = 0
GNext ==
  \E f \in {RandomElement(Assigns(NP))} : \E R \in {RandomElement(SUBSET FwdPairs)} :
  \E st \in {RandomElement(Styles)} : \E vi \in {RandomElement(VarImps)} : \E fm \in {RandomElement(FileModes)} :
  \E so \in {RandomElement(SeedOpts)} : \E po \in {RandomElement(PruneOpts)} :
    LET P == MkProject(NP, f, R, st, vi, fm)
    IN /\ n' = n + 1
       /\ IF LegalProject(P) /\ AcyclicProject(P)
          THEN LET C == ConfOf(P, so, po)
               IN IF LegalConfig(P, C) THEN PrintT(<<"CASE", ToJson([P |-> P, C |-> C, so |-> so, po |-> po, st |-> st])>>) ELSE TRUE
          ELSE TRUE
GSpec == GInit /\ [][GNext]_n
=============================================================================
