---------------------------- MODULE Gen_Sched ----------------------------
(* Case generator for the conformance runs of C21/C22: random members of the small-scope          *)
(* universe (SchedUniverse) that are legal and acyclic, printed as JSON.                          *)
(* Run:  tlc -simulate num=1 -depth N+1 -seed S                                                   *)
EXTENDS SchedUniverse, Json
CONSTANTS NP, Styles, VarImps, FileModes, SeedOpts, PruneOpts, Ifcs
VARIABLE n
\* acyclic call relations only (forward pairs + self recursion of p2)
FwdPairs == {<<i, j>> \in (1..NP) \X (1..NP) : i < j} \cup {<<2, 2>>}
GInit == n = 0
\* TLC evaluates constant-level expressions once and caches them: a RandomElement over a constant set would
\* return the same element in every step.  V(S) makes the argument depend on the state.
V(S) == IF n < 0 THEN {} ELSE S
GNext ==
  \E f \in {RandomElement(V(Assigns(NP)))} : \E R \in {RandomElement(V(SUBSET FwdPairs))} :
  \E st \in {RandomElement(V(Styles))} : \E vi \in {RandomElement(V(VarImps))} : \E fm \in {RandomElement(V(FileModes))} :
  \E ifc \in {RandomElement(V(Ifcs))} :
  \E so \in {RandomElement(V(SeedOpts))} : \E r \in {RandomElement(V(1..(Cardinality(PruneOpts) + 3)))} :
  \* (the three "global disable + routine-level override" options 19..21 are drawn twice as often as the others)
  \E po \in {IF r <= Cardinality(PruneOpts) THEN r ELSE 19 + ((r - Cardinality(PruneOpts) - 1) % 3)} :
    LET P == MkProjectI(NP, f, R, st, vi, fm, ifc)
    IN /\ n' = n + 1
       /\ IF LegalProject(P) /\ AcyclicProject(P)
          THEN LET C == ConfOf(P, so, po)
               IN IF LegalConfig(P, C) THEN PrintT(<<"CASE", ToJson([P |-> P, C |-> C, so |-> so, po |-> po, st |-> st])>>) ELSE TRUE
          ELSE TRUE
GSpec == GInit /\ [][GNext]_n
=============================================================================
