------------------------------- MODULE SymTab -------------------------------
(***************************************************************************)
(* Scoped, case-insensitive symbol tables (loki.types.SymbolTable, Scope)  *)
(* and the case-insensitive dictionary (loki.tools.CaseInsensitiveDict).   *)
(*                                                                         *)
(* Abstract state: st = [tab, parent]                                      *)
(*   tab[s][n]  : attribute stored for folded name n in scope s, or Absent *)
(*   parent[s]  : enclosing scope of s, 0 for none                         *)
(* Every public operation is one event e = [op, s, k, v, f] and the        *)
(* functional core Apply(st, e) gives the next state and the specified     *)
(* return value.  The model-checking spec (Next) and the trace spec        *)
(* (Trace_SymTab) both use Apply, so there is one source of truth.         *)
(*                                                                         *)
(* C12: look-ups find the innermost declaration; membership and deletion   *)
(* agree for any spelling; keys are stored folded; returned attributes are *)
(* copies (the harness mutates every returned/passed attribute object and  *)
(* the projected state must still equal the specified one).                *)
(***************************************************************************)
EXTENDS Integers, Sequences, FiniteSets, TLC

Scopes == 1..4               \* 1..3 form the initial chain 1 -> 2 -> 3 (3 is the root), 4 is a spare root
Names  == {"a", "b", "ab"}   \* folded names
Vals   == {"v1", "v2"}       \* attribute values (harness maps them to distinct SymbolAttributes)
Absent == "none"

Spellings == {"a", "A", "a(1)", "A(I)", "b", "B", "ab", "Ab", "AB"}

\* Fortran case folding + stripping of a dimension suffix (format_lookup_name)
Fold(k) == CASE k \in {"a", "A", "a(1)", "A(I)"} -> "a"
             [] k \in {"b", "B"} -> "b"
             [] k \in {"ab", "Ab", "AB"} -> "ab"

\* CaseInsensitiveDict folds case only (no suffix stripping); its spellings have no suffix
CISpellings == {"a", "A", "b", "B", "ab", "Ab", "AB"}

EmptyTab == [n \in Names |-> Absent]
InitSt == [tab |-> [s \in Scopes |-> EmptyTab],
           parent |-> [s \in Scopes |-> IF s \in {1, 2} THEN s + 1 ELSE 0]]

Has(st, s, n) == st.tab[s][n] # Absent
Put(st, s, n, v) == [st EXCEPT !.tab[s][n] = v]

RECURSIVE LookupR(_, _, _)
LookupR(st, s, n) == IF Has(st, s, n) THEN st.tab[s][n]
                     ELSE IF st.parent[s] = 0 THEN Absent
                     ELSE LookupR(st, st.parent[s], n)

RECURSIVE OwnerR(_, _, _)
OwnerR(st, s, n) == IF Has(st, s, n) THEN s
                    ELSE IF st.parent[s] = 0 THEN 0
                    ELSE OwnerR(st, st.parent[s], n)

RECURSIVE Ancestors(_, _)
Ancestors(st, s) == IF st.parent[s] = 0 THEN {} ELSE {st.parent[s]} \cup Ancestors(st, st.parent[s])

\* declarative statement of "innermost declaration": the owner is the nearest scope on the chain
Chain(st, s) == {s} \cup Ancestors(st, s)
Dist(st, s, t) == Cardinality(Chain(st, s) \ Chain(st, t))   \* number of scopes strictly inside t on s's chain

R(st, ret) == [st |-> st, ret |-> ret]

(***************************************************************************)
(* Event vocabulary.  e.op selects the operation; e.s the scope; e.k the   *)
(* spelled key; e.v a value; e.f a flag (recursive / fail / has-default);  *)
(* e.k2, e.v2 a second pair for update(); e.p a parent for reparent.       *)
(***************************************************************************)
Apply(st, e) ==
  LET n == Fold(e.k) IN
  CASE e.op = "set"        -> R(Put(st, e.s, n, e.v), "none")
    [] e.op = "setdefault" -> R(IF Has(st, e.s, n) THEN st ELSE Put(st, e.s, n, e.v), "unspecified")
    [] e.op = "update"     -> R(Put(Put(st, e.s, n, e.v), e.s, Fold(e.k2), e.v2), "none")
    [] e.op = "get"        -> R(st, st.tab[e.s][n])          \* default None -> "none"
    [] e.op = "getitem"    -> R(st, IF Has(st, e.s, n) THEN st.tab[e.s][n] ELSE "KeyError")
    [] e.op = "lookup"     -> R(st, IF e.f THEN LookupR(st, e.s, n) ELSE st.tab[e.s][n])
    [] e.op = "contains"   -> R(st, IF Has(st, e.s, n) THEN "true" ELSE "false")
    [] e.op = "del"        -> IF Has(st, e.s, n) THEN R(Put(st, e.s, n, Absent), "none") ELSE R(st, "KeyError")
    [] e.op = "pop"        -> IF Has(st, e.s, n) THEN R(Put(st, e.s, n, Absent), st.tab[e.s][n])
                              ELSE R(st, IF e.f THEN "default" ELSE "KeyError")
    [] e.op = "clone"      -> \* table.clone([parent=...]): slot 4 becomes a copy of scope e.s; its parent is the
                              \* one given (e.p = 0: explicitly none) or, when not given (e.p = -1), the parent of e.s
                              R([st EXCEPT !.tab[4] = st.tab[e.s],
                                           !.parent[4] = IF e.p = -1 THEN st.parent[e.s] ELSE e.p], "none")
    \* re-parenting: through the scope's re-parenting method, or by assigning its `parent` attribute
    [] e.op \in {"reparent", "reparent_attr"} -> R([st EXCEPT !.parent[e.s] = e.p], "none")
    \* Scope-level API
    [] e.op = "declare"    -> IF e.f /\ Has(st, e.s, n) THEN R(st, "ValueError") ELSE R(Put(st, e.s, n, e.v), "none")
    [] e.op = "supdate"    -> IF e.f /\ ~Has(st, e.s, n) THEN R(st, "ValueError") ELSE R(Put(st, e.s, n, e.v), "none")
    [] e.op = "get_type"   -> LET r == IF e.f THEN LookupR(st, e.s, n) ELSE st.tab[e.s][n]
                              IN  R(st, IF r = Absent THEN "KeyError" ELSE r)
    [] e.op = "symbol_scope" -> R(st, ToString(OwnerR(st, e.s, n)))

\* events enabled in a state (reparent must not create a cycle; clone source is not the spare slot)
EvBase == [op : {"set", "setdefault", "declare", "supdate"}, s : Scopes, k : Spellings, v : Vals, f : BOOLEAN]
EvRead == [op : {"get", "getitem", "contains", "del"}, s : Scopes, k : Spellings]
EvFlag == [op : {"lookup", "pop", "get_type"}, s : Scopes, k : Spellings, f : BOOLEAN]
EvOwner == [op : {"symbol_scope"}, s : Scopes, k : Spellings]
EvUpd  == [op : {"update"}, s : Scopes, k : Spellings, v : Vals, k2 : Spellings, v2 : Vals]
\* the spare slot 4 is overwritten by the clone: it must not be anybody's parent at that moment
EvClone(st) == {e \in [op : {"clone"}, s : 1..3, k : {"a"}, p : (-1)..3] : \A t \in Scopes : st.parent[t] # 4}
EvRepar(st) == {e \in [op : {"reparent", "reparent_attr"}, s : Scopes, p : 0..4, k : {"a"}] :
                   e.p # e.s /\ (e.p # 0 => e.s \notin Chain(st, e.p))}
Events(st) == EvBase \cup EvRead \cup EvFlag \cup EvOwner \cup EvUpd \cup EvClone(st) \cup EvRepar(st)

VARIABLE st
vars == <<st>>

Init == st = InitSt

\* state-changing steps; the model-checking configuration may restrict spellings / scopes
Do(e) == st' = Apply(st, e).st
NextOver(S, K) ==
  \/ \E op \in {"set", "setdefault", "declare", "supdate"}, s \in S, k \in K, v \in Vals :
        Do([op |-> op, s |-> s, k |-> k, v |-> v, f |-> (op # "declare")])
  \/ \E s \in S, k \in K : Do([op |-> "del", s |-> s, k |-> k])
  \/ \E s \in S, k \in K : Do([op |-> "pop", s |-> s, k |-> k, f |-> FALSE])
  \/ \E s \in S, k \in K, k2 \in K : Do([op |-> "update", s |-> s, k |-> k, v |-> "v1", k2 |-> k2, v2 |-> "v2"])
  \/ \E e \in EvClone(st) : Do(e)
  \/ \E e \in EvRepar(st) : Do(e)
Next == NextOver(Scopes, Spellings)
Spec == Init /\ [][Next]_vars

(***************************************************************************)
(* Design-level properties checked by TLC on the model                     *)
(***************************************************************************)
TypeOK == /\ st.tab \in [Scopes -> [Names -> Vals \cup {Absent}]]
          /\ st.parent \in [Scopes -> 0..4]

NoCycle == \A s \in Scopes : s \notin Ancestors(st, s)

\* recursive look-up = the value in the nearest scope on the chain that has the name
LookupInnermost ==
  \A s \in Scopes, n \in Names :
     LET owners == {t \in Chain(st, s) : Has(st, t, n)} IN
       IF owners = {} THEN LookupR(st, s, n) = Absent /\ OwnerR(st, s, n) = 0
       ELSE LET o == CHOOSE t \in owners : \A u \in owners : Dist(st, s, t) <= Dist(st, s, u)
            IN  LookupR(st, s, n) = st.tab[o][n] /\ OwnerR(st, s, n) = o

\* membership and deletion agree for any spelling: del succeeds exactly when `in` answers true,
\* and afterwards no spelling of the name is a member
MembershipMatchesDeletion ==
  \A s \in Scopes, k \in Spellings :
     LET c == Apply(st, [op |-> "contains", s |-> s, k |-> k]).ret
         d == Apply(st, [op |-> "del", s |-> s, k |-> k])
     IN /\ (c = "true") <=> (d.ret = "none")
        /\ \A k2 \in Spellings : Fold(k2) = Fold(k) =>
              Apply(d.st, [op |-> "contains", s |-> s, k |-> k2]).ret = "false"

\* any two spellings of one name are interchangeable for every operation (result and effect)
Canon == {"a", "b", "ab"}
SpellingIrrelevant ==
  \A s \in Scopes, k1 \in Canon, k2 \in Spellings : Fold(k1) = Fold(k2) =>
     /\ \A op \in {"get", "getitem", "contains", "del", "symbol_scope"} :
          Apply(st, [op |-> op, s |-> s, k |-> k1]) = Apply(st, [op |-> op, s |-> s, k |-> k2])
     /\ \A op \in {"lookup", "pop", "get_type"}, f \in BOOLEAN :
          Apply(st, [op |-> op, s |-> s, k |-> k1, f |-> f]) = Apply(st, [op |-> op, s |-> s, k |-> k2, f |-> f])
     /\ \A op \in {"set", "setdefault", "declare", "supdate"}, f \in BOOLEAN :
          Apply(st, [op |-> op, s |-> s, k |-> k1, v |-> "v2", f |-> f])
            = Apply(st, [op |-> op, s |-> s, k |-> k2, v |-> "v2", f |-> f])

\* (the remaining laws are stated over canonical spellings; SpellingIrrelevant extends them to all)
CanonEvents == {e \in Events(st) : e.k \in Canon /\ (e.op = "update" => e.k2 \in Canon)}

\* reads never change the state
ReadsArePure ==
  \A e \in CanonEvents : e.op \in {"get", "getitem", "contains", "lookup", "get_type", "symbol_scope"}
                             => Apply(st, e).st = st

\* an operation on scope s never changes another scope's table (except clone -> slot 4),
\* and a failing operation (exception) leaves the state unchanged
OnlyTargetScopeChanges ==
  \A e \in CanonEvents : LET r == Apply(st, e) IN
     /\ \A s \in Scopes : (r.st.tab[s] # st.tab[s]) => (e.s = s \/ (e.op = "clone" /\ s = 4))
     /\ r.ret \in {"KeyError", "ValueError"} => r.st = st

Bound == TLCGet("level") <= 4
BoundDeep == TLCGet("level") <= 6
=============================================================================
