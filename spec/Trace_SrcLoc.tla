----------------------------- MODULE Trace_SrcLoc -----------------------------
(* Trace validation for C20.  One case = one file parsed by one frontend:                    *)
(*   c = [lines, nodes], nodes[i] = [kind, l0, l1, text] recorded by walking Loki's IR.      *)
(* TLC decides every node with SrcLoc!NodeClause.  Prints <<"VERDICT", id, ok, clause, n>>   *)
(* and one line "id#k" per distinct <<clause, node kind>> with the first offending node.     *)
EXTENDS SrcLoc, Json, IOUtils, SequencesExt, FiniteSets
Cases == JsonDeserialize(IOEnv.CASES)
VARIABLE tid
Init_ == tid = 1
Bad(c) == { <<NodeClause(c.lines, c.nodes[i]), i>> : i \in DOMAIN c.nodes } \ { <<"ok", i>> : i \in DOMAIN c.nodes }
Detail(c, x) == IF x[1] = "text" THEN "text-" \o Shift(c.lines, c.nodes[x[2]]) ELSE x[1]
Groups(c) == LET bad == Bad(c)
                 ks == { <<Detail(c, x), c.nodes[x[2]].kind>> : x \in bad }
             IN { <<g[1], g[2], CHOOSE i \in {x[2] : x \in {y \in bad : Detail(c, y) = g[1] /\ c.nodes[y[2]].kind = g[2]}} :
                          \A j \in {x[2] : x \in {y \in bad : Detail(c, y) = g[1] /\ c.nodes[y[2]].kind = g[2]}} : i <= j>> : g \in ks }
Next_ == /\ tid <= Len(Cases)
         /\ \E gs \in {SetToSeq(Groups(Cases[tid]))} :
              LET sid == ToString(Cases[tid].id) IN
              /\ PrintT(<<"VERDICT", Cases[tid].id, gs = <<>>, IF gs = <<>> THEN "ok" ELSE gs[1][1], Len(gs)>>)
              /\ \A k \in DOMAIN gs : PrintT(<<"VERDICT", sid \o "#" \o ToString(k), FALSE, gs[k][1] \o ":" \o gs[k][2], gs[k][3]>>)
         /\ tid' = tid + 1
TraceSpec == Init_ /\ [][Next_]_tid
=============================================================================
