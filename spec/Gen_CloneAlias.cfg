SPECIFICATION GSpec
CONSTANT MutShareBody = FALSE
CONSTANT MutShareSpec = FALSE
CONSTANT MutShareTab = FALSE
CONSTANT MutShareMembers = FALSE
CONSTANT MutNoRescope = FALSE
CONSTANT MutStaleProcs = FALSE
CONSTANT MutRegisterInParent = FALSE
CONSTANT MutShareNest = FALSE
CONSTANT MaxDepth = 99
CONSTANT GenDepth = 2
CONSTANT PreOps = 0
CONSTANT Sampled = FALSE
CHECK_DEADLOCK FALSE
