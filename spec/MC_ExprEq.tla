----------------------------- MODULE MC_ExprEq -----------------------------
(* Design-level check of the ExprEq specification itself:                                          *)
(*  - the universe is well formed, contains every node kind, is closed under its case variants,   *)
(*    and folding a variant gives back the base node;                                             *)
(*  - the laws + exemption are satisfiable: the reference relation (equality of folded            *)
(*    descriptors, extended by the `1:n == n` shortcut, hashed by folded descriptor) satisfies    *)
(*    every law on every pair (one TLC state per row of the relation);                            *)
(*  - the laws are sensitive: a case-sensitive relation, an asymmetric flip outside the exemption *)
(*    and a hash by spelling are each rejected.                                                   *)
EXTENDS ExprEq, SequencesExt

Nodes == SetToSeq(Universe)
N == Len(Nodes)
\* (TLCEval forces the lazily evaluated function values to be computed once)
FoldOf == TLCEval([i \in 1..N |-> Fold(Nodes[i])])
BaseIdx == TLCEval([i \in 1..N |-> CHOOSE j \in 1..N : Nodes[j] = FoldOf[i]])

RModel == [nodes |-> Nodes,
           eq    |-> TLCEval([x \in 1..N |-> TLCEval([y \in 1..N |->
                        IF FoldOf[x] = FoldOf[y] \/ IsRangeShortcut(Nodes[x], Nodes[y]) THEN 1 ELSE 0])]),
           hash  |-> BaseIdx]
\* corrupted relations
RCaseSens == [RModel EXCEPT !.eq = [x \in 1..N |-> [y \in 1..N |-> IF Nodes[x] = Nodes[y] THEN 1 ELSE 0]]]
RSpellHash == [RModel EXCEPT !.hash = [x \in 1..N |-> x]]
FlipX == CHOOSE x \in 1..N : Nodes[x] = vn
FlipY == CHOOSE y \in 1..N : Nodes[y] = vm
RFlip == [RModel EXCEPT !.eq[FlipX][FlipY] = 1]
\* the shortcut without the exemption would break symmetry and hash consistency: it is really needed
ShortX == CHOOSE x \in 1..N : Nodes[x] = RI(one, vn, NoneD)

RECURSIVE WellFormed(_)
WellFormed(d) == /\ d.k \in AllKinds
                 /\ d.k \in NameKinds => Known(d.n)
                 /\ d.k \in RangeKinds => Len(d.c) = 3
                 /\ \A i \in 1..Len(d.c) : WellFormed(d.c[i])
RECURSIVE KindsIn(_)
KindsIn(d) == {d.k} \cup UNION {KindsIn(d.c[i]) : i \in 1..Len(d.c)}

ASSUME UniverseWellFormed == \A d \in Universe : WellFormed(d)
ASSUME EveryKindPresent   == UNION {KindsIn(d) : d \in Base} = AllKinds
ASSUME BaseIsFolded       == \A d \in Base : IsBase(d)
ASSUME ClosedUnderVariants == \A d \in Base, v \in Variants :
                                 CaseVariant(v, d) \in Universe /\ Fold(CaseVariant(v, d)) = d
ASSUME VariantsKeepLiterals == \A d \in Universe : d.k \in {"str", "int", "float"} => \A v \in Variants : CaseVariant(v, d).n = d.n
ASSUME Sensitive ==
  /\ \E x \in 1..N : Violations(RCaseSens, "CaseInsensitive", x) # {}
  /\ Violations(RSpellHash, "HashConsistent", FlipX) # {}
  /\ FlipY \in Violations(RFlip, "Symmetric", FlipX)
  /\ RModel.eq[ShortX][FlipX] = 1 /\ RModel.eq[FlipX][ShortX] = 0 /\ Exempt(Nodes[ShortX], Nodes[FlipX])
  /\ PrintT(<<"UNIVERSE", N, Cardinality(Base)>>)

\* The reference relation is computed once (Init) and carried in a state variable: TLC does not cache the
\* constant definition RModel, every reference to it would recompute the whole matrix.
VARIABLES x, rel
MCInit == x = 0 /\ rel = RModel
CheckRow == x < N /\ x' = x + 1 /\ UNCHANGED rel
MCSpec == MCInit /\ [][CheckRow]_<<x, rel>>
\* every law holds on every pair of the reference relation
LawsHoldOnModel == x >= 1 => \A law \in Laws : Violations(rel, law, x) = {}
=============================================================================
