---------------------------- MODULE MC_LineWrap ----------------------------
(* Design-level check of the C04 contract (LineWrap): on a small universe of token sequences, widths and      *)
(* continuation strings the reading of a correctly wrapped text gives back the tokens and passes the line       *)
(* clause (the contract is satisfiable), and every kind of corruption is rejected.                              *)
EXTENDS LineWrap, FiniteSets

W3 == <<97, 98, 99>>                                 \* abc
W9 == <<97, 98, 99, 100, 101, 102, 103, 104, 105>>   \* abcdefghi
LIT == <<39, 120, 32, 121, 39>>                      \* 'x y'
LQ == <<39, 97, 39, 39, 98, 39>>                     \* 'a''b'
Tok == {<<97>>, W3, W9, LIT, LQ, <<44>>, <<42, 42>>, <<40>>}
C0 == <<32, 38>>                                     \* " &"

CONSTANT MaxN
VARIABLES toks, W, c1
vars == <<toks, W, c1>>
Init == /\ toks \in UNION {[1..n -> Tok] : n \in 1..MaxN}
        /\ W \in {9, 13}
        /\ c1 \in {<<38, 32>>, <<32, 32, 38, 32>>}
Next == UNCHANGED vars /\ FALSE
Spec == Init /\ [][Next]_vars

Over == Len(C0) + Len(c1)
Lines == Greedy(toks, 1, <<>>, <<>>, W, C0, c1)
Fits == \A i \in DOMAIN toks : Len(toks[i]) + Over <= W

\* 1. a correct wrapping is read back as exactly the tokens, in one statement
ReadBack == Statements(Lines) = <<toks>>
\* 2. ... and passes the line clause whenever every token fits beside the continuation markers; a token that cannot
\*    fit is reported as "near" (it is not longer than the width) or exempt (it is)
LinesOK == LET bad == BadLines(Lines, W, 4) IN
           /\ Fits => bad = <<>>
           /\ \A k \in DOMAIN bad : bad[k][2] = "near"
           /\ (\A i \in DOMAIN toks : Len(toks[i]) > W \/ Len(toks[i]) + Over <= W) => bad = <<>>
\* 3. a break inside a name, a literal or a two-character operator changes the tokens
SplitTok(t, k) == <<SubSeq(t, 1, k) \o C0, c1 \o SubSeq(t, k + 1, Len(t))>>
BreakInsideRejected == \A i \in DOMAIN toks : \A k \in 1..(Len(toks[i]) - 1) :
                          Statements(SplitTok(toks[i], k)) # <<<<toks[i]>>>>
\* 4. ... whereas the standard's own way of splitting a token (`&` directly after / before the halves) is read back
ExactSplit(t, k) == <<SubSeq(t, 1, k) \o <<38>>, <<32, 38>> \o SubSeq(t, k + 1, Len(t))>>
ExactSplitAccepted == \A i \in DOMAIN toks : \A k \in 1..(Len(toks[i]) - 1) :
                          Statements(ExactSplit(toks[i], k)) = <<<<toks[i]>>>>
\* 5. dropping a continuation marker splits the statement / changes the reading
DropAmpRejected == Len(Lines) > 1 => Statements(<<SubSeq(Lines[1], 1, Len(Lines[1]) - 1)>> \o Tail(Lines)) # <<toks>>
\* 6. joining two lines into one that exceeds the width is reported, unless a single token alone exceeds it
Joined == <<SubSeq(Lines[1], 1, Len(Lines[1]) - Len(C0)) \o <<32>> \o SubSeq(Lines[2], Len(c1) + 1, Len(Lines[2]))>> \o SubSeq(Lines, 3, Len(Lines))
LongRejected == (Len(Lines) > 1 /\ Len(Joined[1]) > W /\ \A i \in DOMAIN toks : Len(toks[i]) <= W)
                   => (Statements(Joined) = <<toks>> /\ BadLines(Joined, W, 4) # <<>>)
\* 7. a trailing comment that alone makes the line longer is exempt, and is not part of the tokens
Cmt == <<32, 33, 32, 99, 99, 99, 99, 99, 99, 99, 99, 99, 99, 99, 99, 99>>
Commented == SubSeq(Lines, 1, Len(Lines) - 1) \o <<Lines[Len(Lines)] \o Cmt>>
CommentExempt == /\ Statements(Commented) = <<toks>>
                 /\ BadLines(Commented, W, 4) = BadLines(Lines, W, 4)
\* 8. a comment line and a blank line between continued lines do not change the reading
Interleaved == IF Len(Lines) > 1 THEN <<Lines[1], <<32, 33, 120>>, <<>>>> \o Tail(Lines) ELSE Lines
InterleaveAccepted == Statements(Interleaved) = <<toks>>
\* 9. a line that holds nothing but `&` is reported (and only such a line)
WithLone == IF Len(Lines) > 1 THEN <<Lines[1], <<32, 38>>>> \o Tail(Lines) ELSE <<<<32, 38>>>> \o Lines
LoneReported == LoneAmp(Lines, 1) = 0 /\ LoneAmp(WithLone, 1) = (IF Len(Lines) > 1 THEN 2 ELSE 1)
=============================================================================
