SPECIFICATION MCSpec
INVARIANT LawsHoldOnModel
CHECK_DEADLOCK FALSE
