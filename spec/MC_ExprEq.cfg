SPECIFICATION MCSpec
INVARIANT LawsHoldOnModel
CHECK_DEADLOCK FALSE
CONSTANT Wide = FALSE
