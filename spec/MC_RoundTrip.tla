---------------------------- MODULE MC_RoundTrip ----------------------------
(* Design-level check of the C02 acceptance: abstract "read" = the identity on sequences of abstract lines,         *)
(* abstract writers W over lines {"a", "A", "", " a"}.  A normalising writer is idempotent and accepted; drifting   *)
(* writers are rejected and the reported position is the first line at which the two passes differ.                  *)
EXTENDS RoundTrip, FiniteSets
Lines == {"a", "A", "", " a"}
VARIABLE src
Init == src \in UNION {[1..n -> Lines] : n \in 0..4}
Next == UNCHANGED src /\ FALSE
Spec == Init /\ [][Next]_src

Up(l) == IF l = "a" \/ l = " a" THEN "A" ELSE l
RECURSIVE Squeeze(_)      \* at most one blank line in a row
Squeeze(s) == IF Len(s) < 2 THEN s
              ELSE IF s[1] = "" /\ s[2] = "" THEN Squeeze(Tail(s)) ELSE <<s[1]>> \o Squeeze(Tail(s))
Norm(s) == Squeeze([i \in DOMAIN s |-> Up(s[i])])
RECURSIVE Grow(_)         \* a blank line after every blank line: drifts
Grow(s) == IF s = <<>> THEN <<>> ELSE IF s[1] = "" THEN <<"", "">> \o Grow(Tail(s)) ELSE <<s[1]>> \o Grow(Tail(s))
Indent(s) == [i \in DOMAIN s |-> IF s[i] = "" THEN "" ELSE " " \o s[i]]      \* re-indents cumulatively: drifts
Case(W(_)) == [t1 |-> W(src), t2 |-> W(W(src)), ir1 |-> Norm(src), ir2 |-> Norm(W(src)), rb |-> TRUE, gf |-> TRUE]

NormAccepted == Findings(Case(Norm)) = <<>>
GrowRejected == (\E i \in DOMAIN src : src[i] = "" /\ (\E j \in 1..(i - 1) : src[j] # "") /\ (\E j \in (i + 1)..Len(src) : src[j] # "")) =>
                   LET f == Findings(Case(Grow)) IN
                   /\ f # <<>> /\ f[1][1] = "text-fixpoint"
                   /\ LET k == f[1][2] - LeadCount(Grow(src), "") t1 == Trim(Grow(src), "") t2 == Trim(Grow(Grow(src)), "") IN
                      /\ \A j \in 1..Min2(k - 1, Min2(Len(t1), Len(t2))) : t1[j] = t2[j]
                      /\ (k <= Len(t1) /\ k <= Len(t2) => t1[k] # t2[k])
IndentRejected == (\E i \in DOMAIN src : src[i] # "") => \E k \in DOMAIN Findings(Case(Indent)) : Findings(Case(Indent))[k][1] = "text-fixpoint"
\* empty lines at the two ends of the text do not count (the frontend strips the text it reads)
Pad(s) == <<"">> \o s \o <<"", "">>
EndsExempt == Findings([t1 |-> Pad(Norm(src)), t2 |-> Norm(src), ir1 |-> Norm(src) \o <<"BLANK">>, ir2 |-> Norm(src), rb |-> TRUE, gf |-> TRUE]) = <<>>
\* a writer whose output is stable but loses structure (drops the lines "A") is rejected by the IR clause
Drop(s) == SelectSeq(s, LAMBDA l : l # "A")
DropRejected == (\E i \in DOMAIN src : src[i] = "A") =>
                   LET c == [t1 |-> Drop(src), t2 |-> Drop(Drop(src)), ir1 |-> src, ir2 |-> Drop(src), rb |-> TRUE, gf |-> TRUE] IN
                   Findings(c) # <<>> /\ Findings(c)[1][1] = "ir-identical"
\* a written text that cannot be read back (or that a compiler rejects) is rejected whatever the rest of the record says
Unreadable == Findings([Case(Norm) EXCEPT !.rb = FALSE, !.t2 = <<>>, !.ir2 = <<>>]) = <<<<"read-back", 0>>>>
NotCompiling == Findings([Case(Norm) EXCEPT !.gf = FALSE]) = <<<<"written-text-compiles", 0>>>>
=============================================================================
