--------------------------- MODULE Trace_LineWrap ---------------------------
(* Trace validation for C04.                                                                                   *)
(* level (i)  c = [lvl |-> 1, top, flat, runs]: `top` a described list of the Gen_LineWrap universe, `flat` the      *)
(*            harness' own sep.join of the real items (must equal LineWrap!Text(top), else the harness built       *)
(*            something else: machinery), runs[r] = [width, cont0, cont1, out]: the lines str(JoinableStringList)  *)
(*            produced under one configuration, decided by LineWrap!Accept1.                                       *)
(* level (ii) c = [lvl |-> 2, width, wide, out, gf]: the lines fgen printed for one IR with an effectively         *)
(*            infinite width and with the style's width; gf: gfortran -ffree-line-length-<width>                   *)
(*            -Werror=line-truncation -fsyntax-only accepted `out`.  Clauses: gfortran-rejects, lone-ampersand,    *)
(*            tokens:<kind of the expected token> (a = line of `out` on which the first differing statement ends,  *)
(*            b = the same for `wide`), line-long / line-near (a = line number).                                   *)
(* Lines are sequences of character codes.  Prints <<"VERDICT", id, ok, clause, n>> and, per finding k,            *)
(* <<"VERDICT", "id#k", FALSE, clause, a, b>>  (a, b: clause-specific positions).                                  *)
EXTENDS LineWrap, Json, IOUtils, SequencesExt
Cases == JsonDeserialize(IOEnv.CASES)
VARIABLE tid

\* one described list, printed under several configurations:  runs[r] = [width, cont0, cont1, out]
RECURSIVE Runs1(_, _, _, _)
Runs1(c, want, r, acc) ==
  IF r > Len(c.runs) THEN acc
  ELSE Pick({Runs1(c, want, r + 1, IF f = <<>> THEN acc ELSE Append(acc, <<f[1], r, f[2]>>)) : f \in {Accept1(want, c.runs[r])}})
Judge1(c) ==
  IF ~(c.top.k = "L" /\ WF(c.top, 3)) THEN <<<<"machinery:ill-formed", 0, 0>>>>
  ELSE IF c.flat # Text(c.top) THEN <<<<"machinery:flat-differs", FirstDiff(c.flat, Text(c.top)), 0>>>>
  ELSE IF ~Aligned(c.top) THEN <<<<"machinery:not-aligned", 0, 0>>>>
  ELSE Pick({Runs1(c, want, 1, <<>>) : want \in {Flatten(Statements(<<Text(c.top)>>), 1, <<>>)}})

Judge2b(c, rw, ro, d) ==
  LET both == d # 0 /\ d <= Len(rw.stmts) /\ d <= Len(ro.stmts)
      j == IF both THEN FirstDiff(rw.stmts[d], ro.stmts[d]) ELSE 0
      kind == IF both /\ j <= Len(rw.stmts[d]) THEN TokKind(rw.stmts[d][j]) ELSE "count"
      lone == LoneAmp(c.out, 1)
      \* a line beyond the width that the line clause exempts (a token longer than the width) is truncated by gfortran:
      \* its verdict only counts for texts whose lines all fit
      fits == \A i \in DOMAIN c.out : Len(c.out[i]) <= c.width
  IN (IF c.gf \/ ~fits THEN <<>> ELSE <<<<"gfortran-rejects", 0, 0>>>>) \o
     (IF lone = 0 THEN <<>> ELSE <<<<"lone-ampersand", lone, 0>>>>) \o
     (IF d = 0 THEN <<>>
      ELSE <<<<"tokens:" \o kind, IF d <= Len(ro.ends) THEN ro.ends[d] ELSE Len(c.out), IF d <= Len(rw.ends) THEN rw.ends[d] ELSE Len(c.wide)>>>>)
     \o [i \in DOMAIN ro.bad |-> <<"line-" \o ro.bad[i][2], ro.bad[i][1], 0>>]
Judge2(c) == Pick({ Pick({ Pick({ Judge2b(c, rw, ro, d) : d \in {FirstDiff(rw.stmts, ro.stmts)} }) :
                             ro \in {ReadChecked(c.out, c.width, 4)} }) :
                      rw \in {Read(c.wide)} })

Init_ == tid = 1
Next_ == /\ tid <= Len(Cases)
         /\ \E fs \in {IF Cases[tid].lvl = 1 THEN Judge1(Cases[tid]) ELSE Judge2(Cases[tid])} :
              LET sid == ToString(Cases[tid].id) IN
              /\ PrintT(<<"VERDICT", Cases[tid].id, fs = <<>>, IF fs = <<>> THEN "ok" ELSE fs[1][1], Len(fs)>>)
              /\ \A k \in DOMAIN fs : PrintT(<<"VERDICT", sid \o "#" \o ToString(k), FALSE, fs[k][1], fs[k][2], fs[k][3]>>)
         /\ tid' = tid + 1
TraceSpec == Init_ /\ [][Next_]_tid
=============================================================================
