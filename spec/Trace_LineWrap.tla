--------------------------- MODULE Trace_LineWrap ---------------------------
(* Trace validation for C04.                                                                                   *)
(* level (i)  c = [lvl |-> 1, top, width, cont0, cont1, flat, out]: `top` a described list of the Gen_LineWrap     *)
(*            universe, `flat` the harness' own sep.join of the real items (must equal LineWrap!Text(top), else   *)
(*            the harness built something else: machinery), `out` the lines str(JoinableStringList) produced.      *)
(* level (ii) c = [lvl |-> 2, width, wide, out]: the lines fgen printed for one IR with an effectively infinite   *)
(*            width and with the style's width.                                                                   *)
(* Lines are sequences of character codes.  Prints <<"VERDICT", id, ok, clause, n>> and, per finding k,            *)
(* <<"VERDICT", "id#k", FALSE, clause, a, b>>  (a, b: clause-specific positions).                                  *)
EXTENDS LineWrap, Json, IOUtils, SequencesExt
Cases == JsonDeserialize(IOEnv.CASES)
VARIABLE tid

Judge1(c) ==
  IF ~(c.top.k = "L" /\ WF(c.top, 3)) THEN <<<<"machinery:ill-formed", 0, 0>>>>
  ELSE IF c.flat # Text(c.top) THEN <<<<"machinery:flat-differs", FirstDiff(c.flat, Text(c.top)), 0>>>>
  ELSE IF ~Aligned(c.top) THEN <<<<"machinery:not-aligned", 0, 0>>>>
  ELSE LET r == Accept1([top |-> c.top, width |-> c.width, cont0 |-> c.cont0, cont1 |-> c.cont1, out |-> c.out])
       IN IF r[1] = "ok" THEN <<>> ELSE <<<<r[1], r[2], 0>>>>

\* what kind of token the reading of the infinitely wide text has at the first difference
TokKind(t) == IF t[1] \in {SQ, DQ} THEN
                  (IF \E i \in 2..(Len(t) - 2) : t[i] = t[1] /\ t[i + 1] = t[1] THEN "literal-doubled-quote" ELSE "literal")
              ELSE IF IsWord(t[1]) THEN "word" ELSE "punct"
Judge2(c) ==
  LET rw == Read(c.wide)
      ro == Read(c.out)
      d == FirstDiff(rw.stmts, ro.stmts)
      both == d # 0 /\ d <= Len(rw.stmts) /\ d <= Len(ro.stmts)
      j == IF both THEN FirstDiff(rw.stmts[d], ro.stmts[d]) ELSE 0
      kind == IF both /\ j <= Len(rw.stmts[d]) THEN TokKind(rw.stmts[d][j]) ELSE "count"
      bad == BadLines(c.out, c.width, 4)
  IN (IF d = 0 THEN <<>>
      ELSE <<<<"tokens:" \o kind, IF d <= Len(ro.ends) THEN ro.ends[d] ELSE Len(c.out), IF d <= Len(rw.ends) THEN rw.ends[d] ELSE Len(c.wide)>>>>)
     \o [i \in DOMAIN bad |-> <<"line-" \o bad[i][2], bad[i][1], 0>>]

Init_ == tid = 1
Next_ == /\ tid <= Len(Cases)
         /\ \E fs \in {IF Cases[tid].lvl = 1 THEN Judge1(Cases[tid]) ELSE Judge2(Cases[tid])} :
              LET sid == ToString(Cases[tid].id) IN
              /\ PrintT(<<"VERDICT", Cases[tid].id, fs = <<>>, IF fs = <<>> THEN "ok" ELSE fs[1][1], Len(fs)>>)
              /\ \A k \in DOMAIN fs : PrintT(<<"VERDICT", sid \o "#" \o ToString(k), FALSE, fs[k][1], fs[k][2], fs[k][3]>>)
         /\ tid' = tid + 1
TraceSpec == Init_ /\ [][Next_]_tid
=============================================================================
