SPECIFICATION Spec
CONSTANT MaxEdits = 2
INVARIANT ContractAccepted
INVARIANT UnmodifiedVerbatim
INVARIANT AncestorLeftValid
INVARIANT RegenRejected
INVARIANT NoUpgradeRejected
CHECK_DEADLOCK FALSE
