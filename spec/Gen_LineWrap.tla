---------------------------- MODULE Gen_LineWrap ----------------------------
(* The bounded universe of level (i) cases for C04: described JoinableStringList objects (LineWrap!Text gives   *)
(* their characters) x widths x continuation strings.  TLC enumerates the described lists and the configurations *)
(* and serialises them for the harness, which builds the real objects and records what they print.               *)
(* A described item: [k, n, items, sep, separable]; k = "L" a nested list, "W" a nested list wrapped in brackets   *)
(* with + (str + list + str), otherwise a leaf of kind k and length n.                                           *)
EXTENDS LineWrap, FiniteSets, Json, IOUtils, SequencesExt

CONSTANT Big     \* TRUE: the thorough universe

Leaf(k, n) == [k |-> k, n |-> n, items |-> <<>>, sep |-> <<>>, separable |-> TRUE]
List(items, sep, separable) == [k |-> "L", n |-> 0, items |-> items, sep |-> sep, separable |-> separable]
Wrapped(items, sep, separable) == [k |-> "W", n |-> 0, items |-> items, sep |-> sep, separable |-> separable]

CS == <<44, 32>>   \* ", "
CM == <<44>>       \* ","
SP == <<32>>       \* " "
NO == <<>>

\* leaves of the flat lists / of the nested lists
LV == {Leaf("P", n) : n \in {1, 3, 5, 9}} \cup {Leaf("Q", n) : n \in {3, 6, 9}} \cup {Leaf("E", n) : n \in {6, 9}}
      \cup {Leaf("D", n) : n \in {4, 8}} \cup {Leaf("B", n) : n \in {4, 7, 10, 15}}
LS == {Leaf("P", 3), Leaf("P", 9), Leaf("Q", 6), Leaf("E", 9), Leaf("B", 7), Leaf("D", 8)}
LT == {Leaf("P", 3), Leaf("P", 9), Leaf("Q", 6), Leaf("B", 7)}
Seqs(S, lo, hi) == UNION {[1..n -> S] : n \in lo..hi}

\* T1: flat lists, every separator
T1 == {List(v, sep, TRUE) : v \in Seqs(LV, 1, IF Big THEN 3 ELSE 2), sep \in {CS, CM, SP}}
\* T1b: longer flat lists over the smaller leaf set
T1b == {List(v, CS, TRUE) : v \in Seqs(LS, 4, IF Big THEN 5 ELSE 4)}
\* T2: format_line('  ', 'CALL ', name, '(', join_items(args), ')') -- sep '' outside, ', ' inside
T2 == {List(<<Leaf("S", ind), Leaf("K", 5), Leaf("P", 3), Leaf("O", 1), List(v, CS, s), Leaf("O", 2)>>, NO, TRUE) :
          ind \in {2, 6}, v \in Seqs(LS, 1, 3), s \in BOOLEAN}
\* T3: format_line('  ', lhs, ' = ', rhs)
T3 == {List(<<Leaf("S", 2), Leaf("P", 3), Leaf("O", 3), x>>, NO, TRUE) : x \in LV}
      \cup {List(<<Leaf("S", 2), Leaf("B", 7), Leaf("O", 3), x, Leaf("O", 4), y>>, NO, TRUE) : x \in LV, y \in LS}
\* T4: a declaration:  '  ', join_items([attr, 'name' + '(' + join_items([..]) + ')']), ' = ', join_items([..])   (depth 2, + / radd)
T4 == {List(<<Leaf("S", 2), List(<<x, Wrapped(<<y, z>>, CS, s2)>>, CS, s1), Leaf("O", 3), List(<<u, v>>, CS, TRUE)>>, NO, TRUE) :
          x \in LT, y \in LT, z \in LT, u \in {Leaf("P", 3), Leaf("P", 9)}, v \in LT, s1 \in BOOLEAN, s2 \in BOOLEAN}

Tops == {t \in T1 \cup T1b \cup T2 \cup T3 \cup T4 : Aligned(t)}
Widths == IF Big THEN {12, 13, 14, 16, 18, 20, 26, 32} ELSE {12, 14, 17, 20, 26}
Conts == {[c0 |-> <<32, 38>>, c1 |-> <<38, 32>>], [c0 |-> <<32, 38>>, c1 |-> <<32, 32, 38, 32>>]}

ASSUME PrintT(<<"UNIVERSE", Cardinality(T1), Cardinality(T1b), Cardinality(T2), Cardinality(T3), Cardinality(T4), Cardinality(Tops)>>)
ASSUME JsonSerialize(IOEnv.OUT, [tops |-> SetToSeq(Tops), widths |-> SetToSeq(Widths), conts |-> SetToSeq(Conts)])
VARIABLE x
Init == x = 0
Next == UNCHANGED x
=============================================================================
