SPECIFICATION TraceSpec
CHECK_DEADLOCK FALSE
INVARIANT NoCycle
INVARIANT LookupInnermost
