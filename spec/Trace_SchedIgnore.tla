---------------------------- MODULE Trace_SchedIgnore ----------------------------
(* Trace validation for C25, ignored dependencies under the dependency-suffixing transformation. *)
(* One case = a kernel that refers to an IGNORED module procedure -- a FUNCTION referenced inline  *)
(* (`a = f(a)`) or a subroutine that is CALLed -- processed by DependencyTransformation(suffix sfx, *)
(* replace_ignore_items) through the real Scheduler (incl. the automatic re-discovery), followed   *)
(* by a second process step.                                                                      *)
(*   c.before   [ignore, block] : the kernel item's lists before the step                         *)
(*   c.after    [ignore, block, refs (names the kernel calls / references inline, from the IR),    *)
(*              nodes [name, kind, live]] after the step                                           *)
(*   c.raised1 / c.raised2   exception text of the dep step / of the later process step            *)
(* Documented rule (DependencyTransformation.rename_calls): when a reference to an ignored         *)
(* dependency n is renamed to n+sfx, the item's ignore entry follows the rename and n+sfx is put   *)
(* on its block list, "because we won't be able to find them as dependencies under their new name *)
(* anymore".  Hence after the step: the lists name the renamed dependency, every graph node is a   *)
(* procedure or module that finds its IR (nothing external, nothing dead), later processing works.*)
EXTENDS Naturals, Sequences, FiniteSets, TLC, Json, IOUtils

Cases == JsonDeserialize(IOEnv.CASES)
VARIABLE tid
R(s) == {s[i] : i \in DOMAIN s}

\* ignored names whose reference carries the suffix after the step
Renamed(c) == {n \in R(c.before.ignore) : (n \o c.sfx) \in R(c.after.refs)}
ListsFollowRename(c) == \A n \in Renamed(c) : (n \o c.sfx) \in R(c.after.ignore) /\ (n \o c.sfx) \in R(c.after.block)

Verdict(c) ==
  IF c.raised1 # "" THEN "ign-raised"
  ELSE IF \E n \in Renamed(c) : (n \o c.sfx) \notin R(c.after.ignore) THEN "ign-ignore-not-renamed"
  ELSE IF \E n \in Renamed(c) : (n \o c.sfx) \notin R(c.after.block) THEN "ign-block-missing"
  ELSE IF \E n \in R(c.after.nodes) : n.kind \notin {"proc", "mod"} THEN "ign-node-kind"
  ELSE IF \E n \in R(c.after.nodes) : ~n.live THEN "ign-dead-node"
  ELSE IF c.raised2 # "" THEN "ign-later-process-raised"
  ELSE "ok"

Init_ == tid = 1
Next_ ==
  /\ tid <= Len(Cases)
  /\ LET c == Cases[tid] IN PrintT(<<"VERDICT", c.id, Verdict(c) = "ok", Verdict(c), Cardinality(Renamed(c))>>)
  /\ tid' = tid + 1
TraceSpec == Init_ /\ [][Next_]_tid
=============================================================================
