INIT Init
NEXT Next
CONSTANT Big = TRUE
