#!/bin/sh
# Offline setup: SANY-parse every specification module; harness self-tests.
cd "$(dirname "$0")" || exit 2
mkdir -p .work evidence
rc=0
for f in spec/*.tla; do
  [ -e "$f" ] || continue
  out=$(cd spec && java -cp /opt/veriftools/tla/tla2tools.jar:/opt/veriftools/tla/CommunityModules-deps.jar tla2sany.SANY "$(basename "$f")" 2>&1)
  if echo "$out" | grep -q -e 'Semantic errors' -e 'Parse Error' -e 'Fatal errors' -e 'Could not'; then
    echo "SANY FAILED: $f"; echo "$out" | tail -20; rc=2
  fi
done
PYTHONPATH=$(pwd) /venv/bin/python -m harness.selftest || rc=2
exit $rc
